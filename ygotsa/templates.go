package main

import (
	"bytes"
	"fmt"
	"go/ast"
	"go/constant"
	"go/parser"
	"go/token"
	"go/types"
	"sort"
	"strings"
	"text/template"

	"golang.org/x/tools/go/packages"
)

// E5t — template instantiation. The generator's Go templates are string constants of the repo
// (arguments of mustMakeTemplate); they are extracted through the type-checker's constant values,
// expanded by the standard library's text/template over a frozen, finite table of data shapes
// built by the analyser (never by repo code: the four helper functions of
// igenutil.TemplateHelperFunctions are re-implemented here and compared with the repo's table by
// name), and the residual Go code is parsed, type-checked and analysed like any other source.
// This is macro expansion before analysis: no function of /repo runs.

type tmplSrc struct {
	Name string
	Src  string
	Pos  token.Pos
	Var  string // name of the package-level variable holding the template
}

// templatesOf extracts name → source for every mustMakeTemplate(<const name>, <const src>) in rel.
func (c *Ctx) templatesOf(rel string) map[string]*tmplSrc {
	out := map[string]*tmplSrc{}
	p := c.Pkg(rel)
	if p == nil {
		return out
	}
	for _, f := range p.Syntax {
		ast.Inspect(f, func(n ast.Node) bool {
			vs, ok := n.(*ast.ValueSpec)
			if !ok {
				return true
			}
			for i, v := range vs.Values {
				call, ok := v.(*ast.CallExpr)
				if !ok || len(call.Args) != 2 {
					continue
				}
				fn := Callee(p.TypesInfo, call)
				if fn == nil || fn.Name() != "mustMakeTemplate" && fn.Name() != "mustTemplate" {
					continue
				}
				nv, ok1 := p.TypesInfo.Types[call.Args[0]]
				sv, ok2 := p.TypesInfo.Types[call.Args[1]]
				if !ok1 || !ok2 || nv.Value == nil || sv.Value == nil || sv.Value.Kind() != constant.String {
					continue
				}
				name := constant.StringVal(nv.Value)
				vn := ""
				if i < len(vs.Names) {
					vn = vs.Names[i].Name
				}
				out[name] = &tmplSrc{Name: name, Src: constant.StringVal(sv.Value), Pos: call.Pos(), Var: vn}
			}
			return true
		})
	}
	return out
}

// helperFuncs re-implements igenutil.TemplateHelperFunctions (4 entries on the pinned tree).
var helperFuncs = template.FuncMap{
	"inc":     func(i int) int { return i + 1 },
	"toUpper": strings.ToUpper,
	"indentLines": func(s string) string {
		var b bytes.Buffer
		p := strings.Split(s, "\n")
		b.WriteRune('\n')
		for i, l := range p {
			if l == "" {
				continue
			}
			b.WriteString("  " + l)
			if i != len(p)-1 {
				b.WriteRune('\n')
			}
		}
		return b.String()
	},
	"stripAsteriskPrefix": func(s string) string { return strings.TrimPrefix(s, "*") },
}

// helperNamesInRepo lists the keys of the composite literal igenutil.TemplateHelperFunctions.
func (c *Ctx) helperNamesInRepo() []string {
	p := c.Pkg("internal/igenutil")
	var out []string
	if p == nil {
		return nil
	}
	for _, f := range p.Syntax {
		ast.Inspect(f, func(n ast.Node) bool {
			vs, ok := n.(*ast.ValueSpec)
			if !ok || len(vs.Names) != 1 || vs.Names[0].Name != "TemplateHelperFunctions" || len(vs.Values) != 1 {
				return true
			}
			if cl, ok := vs.Values[0].(*ast.CompositeLit); ok {
				for _, el := range cl.Elts {
					if kv, ok := el.(*ast.KeyValueExpr); ok {
						if v, ok := ConstOf(p.TypesInfo, kv.Key); ok {
							out = append(out, strings.Trim(v, `"`))
						}
					}
				}
			}
			return true
		})
	}
	sort.Strings(out)
	return out
}

func instantiate(t *tmplSrc, data any) (string, error) {
	tt, err := template.New(t.Name).Funcs(helperFuncs).Option("missingkey=error").Parse(t.Src)
	if err != nil {
		return "", err
	}
	var b bytes.Buffer
	if err := tt.Execute(&b, data); err != nil {
		return "", err
	}
	return b.String(), nil
}

// synthPkg is a type-checked synthetic package made of a prelude and instantiated templates.
type synthPkg struct {
	Name  string
	Pkg   *packages.Package
	File  *ast.File
	Src   string
	Funcs map[string]*FuncInfo // "Recv.Method"
}

type mapImporter struct{ c *Ctx }

func (m mapImporter) Import(path string) (*types.Package, error) {
	if p, ok := m.c.All[path]; ok && p.Types != nil {
		return p.Types, nil
	}
	return nil, fmt.Errorf("package %q not loaded", path)
}

// buildSynth parses and type-checks src as package name. ignoreUnused drops `imported and not used`.
func (c *Ctx) buildSynth(name, src string) (*synthPkg, error) {
	file, err := parser.ParseFile(c.Fset, "synth/"+name+".go", src, parser.ParseComments)
	if err != nil {
		return nil, fmt.Errorf("parse: %v", err)
	}
	info := &types.Info{Types: map[ast.Expr]types.TypeAndValue{}, Defs: map[*ast.Ident]types.Object{}, Uses: map[*ast.Ident]types.Object{},
		Selections: map[*ast.SelectorExpr]*types.Selection{}, Implicits: map[ast.Node]types.Object{}, Scopes: map[ast.Node]*types.Scope{}}
	var errs []string
	cfg := &types.Config{Importer: mapImporter{c}, Error: func(err error) {
		if strings.Contains(err.Error(), "imported and not used") {
			return
		}
		errs = append(errs, err.Error())
	}}
	tp, _ := cfg.Check("synth/"+name, c.Fset, []*ast.File{file}, info)
	if len(errs) > 0 {
		if len(errs) > 4 {
			errs = errs[:4]
		}
		return nil, fmt.Errorf("type-check: %s", strings.Join(errs, "; "))
	}
	pp := &packages.Package{PkgPath: "synth/" + name, Name: name, Fset: c.Fset, Syntax: []*ast.File{file}, Types: tp, TypesInfo: info}
	sp := &synthPkg{Name: name, Pkg: pp, File: file, Src: src, Funcs: map[string]*FuncInfo{}}
	for _, d := range file.Decls {
		fd, ok := d.(*ast.FuncDecl)
		if !ok || fd.Body == nil {
			continue
		}
		n := fd.Name.Name
		if fd.Recv != nil && len(fd.Recv.List) > 0 {
			n = recvName(fd.Recv.List[0].Type) + "." + n
		}
		obj, _ := info.Defs[fd.Name].(*types.Func)
		sp.Funcs[n] = &FuncInfo{Pkg: pp, Decl: fd, Obj: obj, File: file, Name: "generated[" + name + "]." + n}
	}
	return sp, nil
}

// ---- key shapes ----------------------------------------------------------------------------

// keyShape describes one list key of a synthetic list: scalar keys are pointer fields in the list
// element (and value types in keys/params); non-scalar keys (enumerations, identityrefs, unions)
// have the same Go type in the element and in the key.
type keyShape struct {
	Name     string // Go field name
	Type     string // Go type of the key value
	Scalar   bool
	YANGName string
}

type listShape struct {
	ID   string
	Keys []keyShape
}

func (s listShape) multi() bool { return len(s.Keys) > 1 }

// listShapes: the frozen table of key configurations templates are expanded over.
var listShapes = []listShape{
	{"1S", []keyShape{{"Name", "string", true, "name"}}},
	{"1N", []keyShape{{"Color", "E_Color", false, "color"}}},
	{"2SS", []keyShape{{"Name", "string", true, "name"}, {"Id", "uint32", true, "id"}}},
	{"2SN", []keyShape{{"Name", "string", true, "name"}, {"Color", "E_Color", false, "color"}}},
	{"2NS", []keyShape{{"Color", "E_Color", false, "color"}, {"Id", "uint32", true, "id"}}},
	{"2NN", []keyShape{{"Color", "E_Color", false, "color"}, {"Kind", "E_Kind", false, "kind"}}},
	{"3SNS", []keyShape{{"Name", "string", true, "name"}, {"Color", "E_Color", false, "color"}, {"Id", "uint32", true, "id"}}},
}

func (s listShape) keyData() []map[string]any {
	var out []map[string]any
	for _, k := range s.Keys {
		out = append(out, map[string]any{"Name": k.Name, "Type": k.Type, "IsScalarField": k.Scalar, "YANGName": k.YANGName,
			"Tags": fmt.Sprintf(`path:"%s"`, k.YANGName), "IsYANGContainer": false, "IsYANGList": false})
	}
	return out
}

func (s listShape) keyHelperData() []map[string]any {
	var out []map[string]any
	for _, k := range s.Keys {
		out = append(out, map[string]any{"GoName": k.Name, "YANGName": k.YANGName, "IsPtr": k.Scalar})
	}
	return out
}

// prelude declares the element, parent and enum types the instantiated methods refer to.
func (s listShape) prelude(pkg string, ordered bool) string {
	var b strings.Builder
	fmt.Fprintf(&b, "package %s\n\nimport \"fmt\"\n\nvar _ = fmt.Sprint\n\ntype E_Color int64\ntype E_Kind int64\n\n", pkg)
	b.WriteString("type Elem struct {\n")
	for _, k := range s.Keys {
		if k.Scalar {
			fmt.Fprintf(&b, "\t%s *%s\n", k.Name, k.Type)
		} else {
			fmt.Fprintf(&b, "\t%s %s\n", k.Name, k.Type)
		}
	}
	b.WriteString("\tValue *string\n}\n\n")
	keyT := s.Keys[0].Type
	if s.multi() {
		keyT = "Parent_L_Key"
	}
	if ordered {
		b.WriteString("type Parent struct {\n\tL *Elem_OrderedMap\n}\n\n")
	} else {
		fmt.Fprintf(&b, "type Parent struct {\n\tL map[%s]*Elem\n}\n\n", keyT)
	}
	return b.String()
}

func (s listShape) keyTypeName() string {
	if s.multi() {
		return "Parent_L_Key"
	}
	return s.Keys[0].Type
}
