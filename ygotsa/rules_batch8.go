package main

import (
	"fmt"
	"go/ast"
	"go/token"
	"go/types"
	"strings"
)

// Rules added after the eighth batch of seeded changes (sites far from the anchored mechanisms:
// util/reflect.go, util/path.go, internal/yreflect, option scanners).

// ---- R-OM-VISIT-ALL (C14, C15) -----------------------------------------------------------------

// ruleOMVisitAll: every traversal of an ordered map (prune, render, copy, diff, validate) goes
// through yreflect.RangeOrderedMap. Its loop may stop early only because the visitor asked for it
// or because the reflective call has the wrong shape — never because of which key it is looking at.
func ruleOMVisitAll(c *Ctx, r *Report) {
	r.Rule("R-OM-VISIT-ALL", "yreflect.RangeOrderedMap hands every key of the ordered map to the visitor: inside its loop over the keys, an exit before the visit is conditioned only on the shape of the reflective Get call (result count, kind), never on the key's value; a value-dependent exit hides that entry and all later ones from every traversal (prune, render, merge, diff)", 2)
	f := c.MustFunc(r, "internal/yreflect", "RangeOrderedMap")
	if f == nil {
		return
	}
	info := f.Info()
	var loop *ast.RangeStmt
	ast.Inspect(f.Decl.Body, func(x ast.Node) bool {
		if rs, ok := x.(*ast.RangeStmt); ok && loop == nil {
			loop = rs
		}
		return loop == nil
	})
	if loop == nil || loop.Value == nil {
		r.Bad("yreflect.RangeOrderedMap:loop", c.Pos(f.Decl.Pos()), "no range loop over the keys found")
		return
	}
	k := ObjOf(info, loop.Value)
	// the visit call: a call of the function-typed parameter.
	var visit *ast.CallExpr
	ast.Inspect(loop.Body, func(x ast.Node) bool {
		if call, ok := x.(*ast.CallExpr); ok {
			if id, ok := call.Fun.(*ast.Ident); ok && rootParamOfObj(f, info.ObjectOf(id)) {
				visit = call
			}
		}
		return true
	})
	if visit == nil {
		r.Bad("yreflect.RangeOrderedMap:visit", c.Pos(loop.Pos()), "the loop over the keys no longer calls the visitor")
		return
	}
	r.OK("yreflect.RangeOrderedMap:visit", c.Pos(visit.Pos()), "visitor called inside the loop over the keys")
	n, bad := 0, 0
	ast.Inspect(loop.Body, func(x ast.Node) bool {
		var at ast.Node
		switch s := x.(type) {
		case *ast.ReturnStmt:
			at = s
		case *ast.BranchStmt:
			at = s
		}
		if at == nil || at.Pos() > visit.Pos() {
			return true
		}
		n++
		for _, ft := range c.FactsAt(f, at, false) {
			if ft.Kind != "cond" || !factEncloses(c, f, ft, at) {
				continue
			}
			// a condition that reads the key itself (not the result of Get(k)).
			mentionsKey := false
			ast.Inspect(ft.Cond, func(y ast.Node) bool {
				if id, ok := y.(*ast.Ident); ok && info.ObjectOf(id) == k {
					mentionsKey = true
				}
				return !mentionsKey
			})
			if mentionsKey {
				bad++
				r.Bad(fmt.Sprintf("yreflect.RangeOrderedMap:exit#%d", n), c.Pos(at.Pos()),
					"RangeOrderedMap leaves its loop before the visit when "+types.ExprString(ft.Cond)+", a test of the key's value: an entry with such a key (\"\" and 0 are legal keys) and every later entry are never visited")
			}
		}
		return true
	})
	if bad == 0 {
		r.OK("yreflect.RangeOrderedMap:exits", c.Pos(loop.Pos()), fmt.Sprintf("%d exits before the visit, none conditioned on the key's value", n))
	}
}

// ---- R-NIL-FOR-EMPTY (C01, C18) ----------------------------------------------------------------

// ruleNilForEmpty: a zero-length binary value is a value ("" in JSON, zero-length bytes_val). The
// copy idioms append([]byte(nil), b...) and reflect.AppendSlice(reflect.Zero(t), v) return nil
// for an empty b, which the rest of the library reads as "unset". In the functions that move a
// decoded value into a struct field they must not be applied to byte slices.
func ruleNilForEmpty(c *Ctx, r *Report) {
	r.Rule("R-NIL-FOR-EMPTY", "the setters and decoders that carry a decoded binary value into a GoStruct field (util/reflect.go, ytypes leaf decoders) never rebuild a byte slice with a nil-for-empty idiom (append onto a nil slice, reflect.AppendSlice onto reflect.Zero): a zero-length binary must arrive as a non-nil empty value", 10)
	isBytes := func(t types.Type) bool {
		if t == nil {
			return false
		}
		sl, ok := t.Underlying().(*types.Slice)
		if !ok {
			return false
		}
		b, ok := sl.Elem().Underlying().(*types.Basic)
		return ok && b.Kind() == types.Uint8
	}
	for _, f := range c.funcsInScope(func(s string) bool {
		return s == "util/reflect.go" || s == "ytypes/leaf.go" || s == "ytypes/leaf_list.go" || s == "ytypes/util_types.go" || s == "ytypes/unmarshal.go"
	}, libPkgs) {
		info := f.Info()
		bad := 0
		ast.Inspect(f.Decl.Body, func(x ast.Node) bool {
			call, ok := x.(*ast.CallExpr)
			if !ok {
				return true
			}
			if id, ok := call.Fun.(*ast.Ident); ok && id.Name == "append" && len(call.Args) >= 2 && call.Ellipsis.IsValid() {
				if _, isB := info.Uses[id].(*types.Builtin); isB {
					first := ast.Unparen(call.Args[0])
					nilFirst := isNilIdent(info, first)
					if conv, ok := first.(*ast.CallExpr); ok && len(conv.Args) == 1 && isNilIdent(info, conv.Args[0]) {
						nilFirst = true
					}
					if tv, ok := info.Types[call]; ok && nilFirst && isBytes(tv.Type) {
						bad++
						r.Bad(fmt.Sprintf("%s:nil-for-empty#%d", f.Name, bad), c.Pos(call.Pos()),
							f.Name+" copies a byte slice with "+types.ExprString(call)+": for a zero-length value the result is nil, so an empty binary leaf (JSON \"\", zero-length bytes_val) is stored as unset and vanishes on re-render")
					}
				}
			}
			if FullName(Callee(info, call)) == "reflect.AppendSlice" && len(call.Args) == 2 {
				if z, ok := ast.Unparen(call.Args[0]).(*ast.CallExpr); ok && FullName(Callee(info, z)) == "reflect.Zero" {
					bad++
					r.Bad(fmt.Sprintf("%s:nil-for-empty#%d", f.Name, bad), c.Pos(call.Pos()),
						f.Name+" rebuilds a slice with "+types.ExprString(call)+": appending zero elements to the zero (nil) slice gives nil, so a zero-length binary value is stored as unset")
				}
			}
			return true
		})
		if bad == 0 {
			r.OK(f.Name+":no-nil-for-empty", c.Pos(f.Decl.Pos()), "")
		}
	}
}

// ---- R-OPTS-SCAN (C03) -------------------------------------------------------------------------

// ruleOptsScan: a loop that scans a slice of options for more than one kind of option must look at
// every element: leaving the loop when one kind is found loses the options listed after it.
func ruleOptsScan(c *Ctx, r *Report) {
	r.Rule("R-OPTS-SCAN", "in package ygot, a loop over a slice of option values that handles more than one option type does not leave the loop (return/break) from inside it; a scanner for a single option type may return its hit", 2)
	n := 0
	for _, f := range c.AllFuncs("ygot") {
		info := f.Info()
		ast.Inspect(f.Decl.Body, func(x ast.Node) bool {
			rs, ok := x.(*ast.RangeStmt)
			if !ok || rs.Value == nil {
				return true
			}
			tv, ok := info.Types[rs.X]
			if !ok || tv.Type == nil {
				return true
			}
			sl, ok := tv.Type.Underlying().(*types.Slice)
			if !ok {
				return true
			}
			nt, ok := sl.Elem().(*types.Named)
			if !ok || !strings.HasSuffix(nt.Obj().Name(), "Opt") && !strings.HasSuffix(nt.Obj().Name(), "Option") {
				return true
			}
			if _, isIface := nt.Underlying().(*types.Interface); !isIface {
				return true
			}
			// option types handled in the body: type-switch cases and comma-ok assertions.
			handled := map[string]bool{}
			ast.Inspect(rs.Body, func(y ast.Node) bool {
				switch s := y.(type) {
				case *ast.CaseClause:
					for _, e := range s.List {
						if t, ok := info.Types[e]; ok && t.IsType() {
							handled[t.Type.String()] = true
						}
					}
				case *ast.TypeAssertExpr:
					if s.Type != nil {
						if t, ok := info.Types[s.Type]; ok && t.IsType() {
							handled[t.Type.String()] = true
						}
					}
				}
				return true
			})
			if len(handled) == 0 {
				return true
			}
			n++
			key := fmt.Sprintf("%s:opts-loop#%d", f.Name, n)
			leaves := false
			ast.Inspect(rs.Body, func(y ast.Node) bool {
				switch s := y.(type) {
				case *ast.FuncLit:
					return false
				case *ast.ReturnStmt:
					leaves = true
				case *ast.BranchStmt:
					if s.Tok == token.BREAK {
						leaves = true
					}
				}
				return true
			})
			r.Check(len(handled) < 2 || !leaves, key, c.Pos(rs.Pos()), fmt.Sprintf("%d option type(s) handled; loop left early: %v", len(handled), leaves),
				fmt.Sprintf("%s scans its options for %d option types but leaves the loop as soon as one of them is found: options listed after it (e.g. IgnoreAdditions after a DiffPathOpt) are silently ignored", f.Name, len(handled)))
			return true
		})
	}
}

// ---- R-DEEPEQ-TYPE (C30) -----------------------------------------------------------------------

// ruleDeepEqType: leafref values are compared with util.DeepEqualDerefPtrs. Equality must be
// type-sensitive (reflect.DeepEqual on the dereferenced values): two values of the same reflect
// *kind* but different Go types (two enumerations, an enumeration and an int64 member of a union)
// are different YANG values.
func ruleDeepEqType(c *Ctx, r *Report) {
	r.Rule("R-DEEPEQ-TYPE", "util.DeepEqualDerefPtrs reports equality only through reflect.DeepEqual on the (dereferenced) values; a comparison of the underlying kind-level representation (Int()==Int(), String()==String()) equates values of different enumeration types and lets a dangling leafref match", 1)
	f := c.MustFunc(r, "util", "DeepEqualDerefPtrs")
	if f == nil {
		return
	}
	info := f.Info()
	n := 0
	for _, rs := range returnsOf(f.Decl.Body) {
		if len(rs.Results) != 1 {
			continue
		}
		res := ast.Unparen(rs.Results[0])
		if tv, ok := info.Types[res]; ok && tv.Value != nil && tv.Value.ExactString() == "false" {
			continue
		}
		n++
		ok := false
		why := types.ExprString(res)
		if call, isCall := res.(*ast.CallExpr); isCall && FullName(Callee(info, call)) == "reflect.DeepEqual" {
			ok = true
		}
		// validity agreement (both invalid / both nil) is type-independent.
		if be, isBin := res.(*ast.BinaryExpr); isBin && be.Op == token.EQL {
			l, _, lok := reflectMethod(info, be.X)
			rr, _, rok := reflectMethod(info, be.Y)
			_, _ = l, rr
			if lok && rok && strings.Contains(why, "IsValid") {
				ok = true
			}
		}
		r.Check(ok, fmt.Sprintf("util.DeepEqualDerefPtrs:result#%d", n), c.Pos(rs.Pos()), "reflect.DeepEqual",
			"DeepEqualDerefPtrs returns "+why+", which is not reflect.DeepEqual of the two values: values of the same kind but of different types (enumeration SLOW(1) vs enumeration RED(1), or vs int64 1) compare equal, so a leafref to a union leaf can match a value of another member type")
	}
	if n == 0 {
		r.Und("util.DeepEqualDerefPtrs:result", c.Pos(f.Decl.Pos()), "no result expression found")
	}
}

// ---- R-ENUM-KEY-RENDER (C17) -------------------------------------------------------------------

// ruleEnumKeyRender: an enumeration map key is an int64-kinded Go value whose String() method
// yields "out-of-range …" text for UNSET/undefined values. Every rendering of a map key must take
// int64-kinded keys through keyValue (which looks the name up and fails for undefined values),
// never through %v of the key itself.
func ruleEnumKeyRender(c *Ctx, r *Report) {
	r.Rule("R-ENUM-KEY-RENDER", "ygot.mapKeyToJSONString renders a key with %v of the key itself only in arms of its reflect.Kind dispatch that exclude reflect.Int64 (enumerations): int64-kinded keys go through keyValue, which fails for an UNSET or undefined value instead of printing the Stringer's out-of-range text", 1)
	f := c.MustFunc(r, "ygot", "mapKeyToJSONString")
	if f == nil {
		return
	}
	info := f.Info()
	n := 0
	ast.Inspect(f.Decl.Body, func(x ast.Node) bool {
		call, ok := x.(*ast.CallExpr)
		if !ok || FullName(Callee(info, call)) != "fmt.Sprintf" || len(call.Args) != 2 {
			return true
		}
		// Sprintf("%v", <k>.Interface()): the raw key.
		if _, m, ok := reflectMethod(info, call.Args[1]); !ok || m != "Interface" {
			return true
		}
		n++
		excl := false
		for _, ft := range c.FactsAt(f, call, false) {
			if ft.Kind != "switch" {
				continue
			}
			if tv, ok := info.Types[ft.Cond]; !ok || tv.Type == nil || tv.Type.String() != "reflect.Kind" {
				continue
			}
			if ft.Deflt {
				// default arm: some sibling arm must name reflect.Int64.
				if sw := c.enclosingSwitch(f, call); sw != nil {
					for _, cc := range sw.Body.List {
						for _, e := range cc.(*ast.CaseClause).List {
							if strings.HasSuffix(types.ExprString(e), "reflect.Int64") {
								excl = true
							}
						}
					}
				}
			} else {
				excl = true
				for _, v := range ft.Vals {
					if strings.HasSuffix(types.ExprString(v), "reflect.Int64") {
						excl = false
					}
				}
			}
		}
		r.Check(excl, fmt.Sprintf("ygot.mapKeyToJSONString:raw-key#%d", n), c.Pos(call.Pos()), "raw %v rendering excluded for int64-kinded keys",
			"mapKeyToJSONString renders the key with "+types.ExprString(call)+" on a path that int64-kinded (enumeration) keys can take: an UNSET or undefined enumeration key is printed as \"out-of-range … enum value\" instead of making the rendering fail")
		return true
	})
	if n == 0 {
		r.OK("ygot.mapKeyToJSONString:raw-key", c.Pos(f.Decl.Pos()), "no raw %v rendering of a key")
	}
}

// enclosingSwitch: the innermost tagged switch statement around n.
func (c *Ctx) enclosingSwitch(f *FuncInfo, n ast.Node) *ast.SwitchStmt {
	pm := c.parentMap(f.File)
	for p := pm[n]; p != nil; p = pm[p] {
		if sw, ok := p.(*ast.SwitchStmt); ok && sw.Tag != nil {
			return sw
		}
	}
	return nil
}

// ---- R-DEDUP-SCOPE (C17) -----------------------------------------------------------------------

// ruleDedupScope: gogen's Generate skips a union's enumerated types when it has "already seen" the
// union — a deduplication that is only valid within one directory (one generated struct), because
// the generated ΛEnumTypes map is keyed by the path of each leaf. The set it consults must
// therefore be created per directory.
func ruleDedupScope(c *Ctx, r *Report) {
	r.Rule("R-DEDUP-SCOPE", "in gogen.CodeGenerator.Generate every set that lets the loop over a directory's fields skip a field (continue on membership) is created inside the loop over directories: a set that outlives the directory makes a later directory's leaf lose its ΛEnumTypes entry, and its enumeration names can no longer be parsed", 1)
	f := c.MustFunc(r, "gogen", "CodeGenerator.Generate")
	if f == nil {
		return
	}
	info := f.Info()
	n := 0
	for _, bs := range branchStmts(f.Decl.Body, token.CONTINUE) {
		// continue guarded by a map lookup m[…] / `_, ok := m[…]`.
		var set types.Object
		for _, ft := range c.FactsAt(f, bs, false) {
			if ft.Kind != "cond" || !factEncloses(c, f, ft, bs) {
				continue
			}
			ast.Inspect(ft.Cond, func(y ast.Node) bool {
				if ix, ok := y.(*ast.IndexExpr); ok {
					if tv, ok := info.Types[ix.X]; ok && tv.Type != nil {
						if _, isMap := tv.Type.Underlying().(*types.Map); isMap {
							set = ObjOf(info, ix.X)
						}
					}
				}
				return true
			})
		}
		if set == nil {
			continue
		}
		// loops enclosing the continue, outermost last.
		var loops []ast.Node
		for _, a := range c.Ancestors(f, bs) {
			switch a.(type) {
			case *ast.RangeStmt, *ast.ForStmt:
				loops = append(loops, a)
			}
		}
		if len(loops) < 2 {
			continue
		}
		n++
		// the membership test is keyed by the field's schema path — the key under which the
		// result is stored — and not by a property several fields can share (the union's type name).
		var keyExpr ast.Expr
		for _, ft := range c.FactsAt(f, bs, false) {
			if ft.Kind != "cond" || !factEncloses(c, f, ft, bs) {
				continue
			}
			ast.Inspect(ft.Cond, func(y ast.Node) bool {
				if ix, ok := y.(*ast.IndexExpr); ok && ObjOf(info, ix.X) == set {
					keyExpr = ix.Index
				}
				return true
			})
		}
		if keyExpr != nil {
			keyObj := ObjOf(info, keyExpr)
			perPath := false
			if keyObj != nil {
				// another map written in the same arm (the arm's result) is keyed by the same variable.
				var arm ast.Node = loops[0]
				for _, a := range c.Ancestors(f, bs) {
					if cc, ok := a.(*ast.CaseClause); ok {
						arm = cc
						break
					}
				}
				ast.Inspect(arm, func(y ast.Node) bool {
					as, ok := y.(*ast.AssignStmt)
					if !ok {
						return true
					}
					for _, l := range as.Lhs {
						if ix, ok := ast.Unparen(l).(*ast.IndexExpr); ok && ObjOf(info, ix.X) != set && ObjOf(info, ix.Index) == keyObj {
							perPath = true
						}
					}
					return true
				})
			}
			r.Check(perPath, fmt.Sprintf("gogen.CodeGenerator.Generate:skip-key(%s)", set.Name()), c.Pos(bs.Pos()), "fields skipped by the key under which their result is stored",
				"Generate skips a field when "+types.ExprString(keyExpr)+" was seen before, which is not the key (the schema path) under which the field's enumerated types are stored: a second leaf with the same union type — a leafref sorting before its target — leaves the other path without a ΛEnumTypes entry, and enumeration names cannot be parsed into either leaf")
		}
		outer := loops[len(loops)-1]
		inside := outer.Pos() <= set.Pos() && set.Pos() <= outer.End()
		r.Check(inside, fmt.Sprintf("gogen.CodeGenerator.Generate:skip-set(%s)", set.Name()), c.Pos(bs.Pos()), "set created per directory",
			"Generate skips a field when it is found in "+set.Name()+", a set created outside the loop over directories: a union (or leafref to it) met in an earlier directory suppresses the ΛEnumTypes entries of the same union's leaves in every later directory")
	}
	if n == 0 {
		r.Und("gogen.CodeGenerator.Generate:skip-set", c.Pos(f.Decl.Pos()), "no membership-guarded continue found in the nested loops of Generate")
	}
}

// ---- R-JSONPATH-PREFIX (C01) -------------------------------------------------------------------

// ruleJSONPathPrefix: a field's JSON value is found by walking its (possibly compressed) path
// through nested objects whose member names may or may not carry a module prefix, at any level
// (RFC 7951 prefixes a name whenever the module changes). "Not found" may therefore be concluded
// only after the members of the object at that level were searched with their prefixes stripped.
func ruleJSONPathPrefix(c *Ctx, r *Report) {
	r.Rule("R-JSONPATH-PREFIX", "ytypes.getJSONTreeValForPath reports `not found` for a JSON object only after ranging over that object's members and comparing util.StripModulePrefix(member) with the path element (decided on the CFG: no `…, false` return is reachable without passing such a range, except where the value is not an object); a direct lookup by the unprefixed name misses members that carry a module prefix below the first level", 2)
	f := c.MustFunc(r, "ytypes", "getJSONTreeValForPath")
	if f == nil {
		return
	}
	info := f.Info()
	// qualifying ranges: over a map[string]interface{} with a StripModulePrefix call in the body.
	rangeX := map[ast.Node]bool{}
	ast.Inspect(f.Decl.Body, func(x ast.Node) bool {
		rs, ok := x.(*ast.RangeStmt)
		if !ok {
			return true
		}
		if len(CallsIn(info, rs.Body, P("util")+".StripModulePrefix")) > 0 {
			rangeX[rs.X] = true
		}
		return true
	})
	r.Check(len(rangeX) > 0, "ytypes.getJSONTreeValForPath:prefix-insensitive-search", c.Pos(f.Decl.Pos()), "members searched with prefixes stripped",
		"getJSONTreeValForPath no longer compares member names with their module prefix stripped")
	if len(rangeX) == 0 {
		return
	}
	// `…, false` returns that are not excused by a failed type assertion / an exhausted path.
	excused := func(rs *ast.ReturnStmt) bool {
		if len(rs.Results) != 2 {
			return true
		}
		if tv, ok := info.Types[rs.Results[1]]; !ok || tv.Value == nil || tv.Value.ExactString() != "false" {
			return true // not a not-found result
		}
		for _, ft := range c.FactsAt(f, rs, false) {
			if ft.Kind != "cond" || ft.Pos {
				continue
			}
			// !ok where ok is the comma-ok result of a type assertion.
			if id, ok := ast.Unparen(ft.Cond).(*ast.Ident); ok {
				obj := info.ObjectOf(id)
				isTA := false
				ast.Inspect(f.Decl.Body, func(y ast.Node) bool {
					if as, ok := y.(*ast.AssignStmt); ok && len(as.Lhs) == 2 && len(as.Rhs) == 1 && ObjOf(info, as.Lhs[1]) == obj {
						if _, ok := ast.Unparen(as.Rhs[0]).(*ast.TypeAssertExpr); ok {
							isTA = true
						}
					}
					return true
				})
				if isTA {
					return true
				}
			}
		}
		return false
	}
	bypass, decided := c.FuncBypass(f, func(x ast.Node) bool { return rangeX[x] }, excused)
	switch {
	case !decided:
		r.Und("ytypes.getJSONTreeValForPath:not-found-after-search", c.Pos(f.Decl.Pos()), "CFG not available")
	default:
		r.Check(!bypass, "ytypes.getJSONTreeValForPath:not-found-after-search", c.Pos(f.Decl.Pos()), "every not-found result follows the prefix-insensitive search of that level",
			"getJSONTreeValForPath can return `not found` for an object without having searched its members with their module prefixes stripped (a direct lookup by the unprefixed name): with AppendModuleName a compressed path whose module changes below its first element (\"mod-a:lists\": {\"mod-b:list\": …}) is treated as absent and the whole subtree is silently dropped")
	}
}

// ---- R-STRIP-EXACT (C17, C18) ------------------------------------------------------------------

// ruleStripExact: util.StripModulePrefix removes a module prefix from a name of the form
// prefix:name and returns anything else unchanged. castToEnumValue relies on "unchanged" for
// strings with more than one colon: they must not be cut down to their last segment, or unknown
// enumeration names (a:b:UP, http://x/ns:UP) are accepted as UP.
func ruleStripExact(c *Ctx, r *Report) {
	r.Rule("R-STRIP-EXACT", "util.StripModulePrefix returns a proper part of its argument only where the argument is known to consist of exactly two colon-separated parts (len(strings.Split(name, \":\")) == 2, or a count/cut test to the same effect); every other path returns the argument itself", 2)
	f := c.MustFunc(r, "util", "StripModulePrefix")
	if f == nil {
		return
	}
	info := f.Info()
	ps := paramObjs(f)
	if len(ps) != 1 {
		r.Und("util.StripModulePrefix:shape", c.Pos(f.Decl.Pos()), "expected one parameter")
		return
	}
	name := ps[0]
	n := 0
	for _, rs := range returnsOf(f.Decl.Body) {
		if len(rs.Results) != 1 {
			continue
		}
		n++
		key := fmt.Sprintf("util.StripModulePrefix:return#%d", n)
		res := ast.Unparen(rs.Results[0])
		if ObjOf(info, res) == name {
			r.OK(key, c.Pos(rs.Pos()), "argument returned unchanged")
			continue
		}
		exact := false
		for _, ft := range c.FactsAt(f, rs, false) {
			lenIs2 := func(e ast.Expr, vals []ast.Expr) bool {
				call, ok := ast.Unparen(e).(*ast.CallExpr)
				if !ok {
					return false
				}
				id, ok := call.Fun.(*ast.Ident)
				if !ok || id.Name != "len" || len(call.Args) != 1 {
					return false
				}
				// len(<split of name by ":">)
				isSplit := false
				for _, d := range append(allDefs(f, ObjOf(info, call.Args[0])), call.Args[0]) {
					if sc, ok := ast.Unparen(d).(*ast.CallExpr); ok && FullName(Callee(info, sc)) == "strings.Split" && len(sc.Args) == 2 && ObjOf(info, sc.Args[0]) == name {
						if v, isC := ConstOf(info, sc.Args[1]); isC && v == `":"` {
							isSplit = true
						}
					}
				}
				if !isSplit {
					return false
				}
				for _, v := range vals {
					if cv, isC := ConstOf(info, v); isC && cv == "2" {
						return true
					}
				}
				return false
			}
			switch ft.Kind {
			case "switch":
				if ft.Pos && !ft.Deflt && len(ft.Vals) == 1 && lenIs2(ft.Cond, ft.Vals) {
					exact = true
				}
			case "cond":
				if be, ok := ast.Unparen(ft.Cond).(*ast.BinaryExpr); ok && ft.Pos && be.Op == token.EQL {
					if lenIs2(be.X, []ast.Expr{be.Y}) || lenIs2(be.Y, []ast.Expr{be.X}) {
						exact = true
					}
					// strings.Count(name, ":") == 1
					for _, pair := range [][2]ast.Expr{{be.X, be.Y}, {be.Y, be.X}} {
						if cc, ok := ast.Unparen(pair[0]).(*ast.CallExpr); ok && FullName(Callee(info, cc)) == "strings.Count" && len(cc.Args) == 2 && ObjOf(info, cc.Args[0]) == name {
							if v, isC := ConstOf(info, pair[1]); isC && v == "1" {
								exact = true
							}
						}
					}
				}
			}
		}
		r.Check(exact, key, c.Pos(rs.Pos()), "a part of the argument is returned only for exactly two colon-separated parts",
			"StripModulePrefix returns "+types.ExprString(res)+" on a path where the argument is not known to have exactly one colon: a string with several colons is cut down to a suffix, so castToEnumValue accepts unknown enumeration names such as \"a:b:UP\" as UP")
	}
}

// ---- R-LEAFLIST-TYPED (C24) --------------------------------------------------------------------

// ruleLeafListTyped: PathsFromProto hands simple leaf-lists over as []any; ProtoFromPaths turns
// them into the typed slice its per-wrapper arms expect. If that conversion dispatches on the
// element type, it must have an arm for every element type the writer produces for the supported
// wrappers (string, uint64, []byte); the reflective form (reflect.SliceOf of the first element's
// type) covers all of them by construction.
func ruleLeafListTyped(c *Ctx, r *Report) {
	r.Rule("R-LEAFLIST-TYPED", "protomap's conversion of a []any leaf-list into a typed slice is either reflective over the element type, or a type dispatch with arms for string, uint64 and []byte — the element types PathsFromProto produces for the supported wrapper kinds", 1)
	f := c.MustFunc(r, "protomap", "typedLeafList")
	if f == nil {
		return
	}
	info := f.Info()
	var ts *ast.TypeSwitchStmt
	ast.Inspect(f.Decl.Body, func(x ast.Node) bool {
		if s, ok := x.(*ast.TypeSwitchStmt); ok && ts == nil {
			ts = s
		}
		return ts == nil
	})
	if ts == nil {
		reflective := len(CallsIn(info, f.Decl.Body, "reflect.SliceOf")) > 0 && len(CallsIn(info, f.Decl.Body, "reflect.Append")) > 0
		r.Check(reflective, "protomap.typedLeafList:element-types", c.Pos(f.Decl.Pos()), "reflective conversion (any element type)",
			"typedLeafList neither dispatches on the element type nor builds the slice reflectively: the rule does not recognise how []any leaf-lists are converted")
		return
	}
	have := map[string]bool{}
	for _, cc := range ts.Body.List {
		for _, e := range cc.(*ast.CaseClause).List {
			if tv, ok := info.Types[e]; ok && tv.IsType() {
				have[tv.Type.String()] = true
			}
		}
	}
	var missing []string
	for _, want := range [][]string{{"string", "[]string"}, {"uint64", "[]uint64"}, {"[]byte", "[]uint8", "[][]byte", "[][]uint8"}} {
		ok := false
		for _, w := range want {
			if have[w] {
				ok = true
			}
		}
		if !ok {
			missing = append(missing, want[0])
		}
	}
	r.Check(len(missing) == 0, "protomap.typedLeafList:element-types", c.Pos(ts.Pos()), "arms for string, uint64 and []byte",
		"typedLeafList dispatches on the element type without an arm for "+strings.Join(missing, ", ")+": ProtoFromPaths(new, PathsFromProto(m)) fails for a leaf-list of that kind")
}

// ---- R-ENUM-UNSET-RENDER (C17) -----------------------------------------------------------------

// ruleEnumUnsetRender: enumFieldToString returns (name, set, err); for the zero value it returns
// ("", false, nil). A caller that discards `set` renders an UNSET enumeration as the empty string —
// as a list key, or as a member of a leaf-list — instead of skipping the leaf or failing.
func ruleEnumUnsetRender(c *Ctx, r *Report) {
	r.Rule("R-ENUM-UNSET-RENDER", "every caller of ygot.enumFieldToString reads the `set` result (an UNSET enumeration is skipped or is an error, never rendered as \"\"); the one exception is ygot.EnumName, whose documented contract is to return \"\" for an unset value", 6)
	for _, f := range c.AllFuncs("ygot") {
		info := f.Info()
		pm := c.parentMap(f.File)
		n := 0
		for _, call := range CallsIn(info, f.Decl.Body, P("ygot")+".enumFieldToString") {
			n++
			key := fmt.Sprintf("%s:enumFieldToString#%d:set-read", f.Name, n)
			as, ok := pm[call].(*ast.AssignStmt)
			if !ok || len(as.Lhs) != 3 {
				r.Und(key, c.Pos(call.Pos()), "call result not assigned to three variables")
				continue
			}
			id, isID := as.Lhs[1].(*ast.Ident)
			read := isID && id.Name != "_"
			if !read && f.Name == "ygot.EnumName" {
				r.Exc(key, c.Pos(call.Pos()), "EnumName's documented contract: \"If the enumeration is unset, the name returned is an empty string\"")
				continue
			}
			r.Check(read, key, c.Pos(call.Pos()), "set result read",
				f.Name+" discards the `set` result of enumFieldToString: an UNSET (zero) enumeration is rendered as the empty string (a list key `[k=]`, a leaf-list member \"\") instead of being skipped or reported")
		}
	}
}

// ---- R-OM-EMPTINESS (C12, C03) -----------------------------------------------------------------

// ruleOMEmptiness: after a deletion below a field, retrieveNodeContainer resets the field when it
// has become empty. For containers "empty" is "the struct is its zero value"; an ordered map whose
// entries were all deleted is *not* the zero value of its struct (its key slice and value map stay
// allocated), so the arm that admits ordered maps must test Len() for them. Otherwise the emptied
// ordered map keeps its parent list entry alive after the entry's key leaf was deleted.
func ruleOMEmptiness(c *Ctx, r *Report) {
	r.Rule("R-OM-EMPTINESS", "in ytypes.retrieveNodeContainer's post-delete reset, the struct-zero test (Elem().IsZero()) is applied only where the field is known not to be an ordered map; an ordered map is empty when GoOrderedMap.Len() == 0", 1)
	f := c.MustFunc(r, "ytypes", "retrieveNodeContainer")
	if f == nil {
		return
	}
	info := f.Info()
	isOMAssertIdent := func(e ast.Expr) bool {
		id, ok := ast.Unparen(e).(*ast.Ident)
		if !ok {
			return false
		}
		obj := info.ObjectOf(id)
		found := false
		ast.Inspect(f.Decl.Body, func(y ast.Node) bool {
			as, ok := y.(*ast.AssignStmt)
			if !ok || len(as.Lhs) != 2 || len(as.Rhs) != 1 || ObjOf(info, as.Lhs[1]) != obj {
				return true
			}
			if ta, ok := ast.Unparen(as.Rhs[0]).(*ast.TypeAssertExpr); ok && ta.Type != nil {
				if tv, ok := info.Types[ta.Type]; ok && strings.HasSuffix(tv.Type.String(), "ygot.GoOrderedMap") {
					found = true
				}
			}
			return true
		})
		return found
	}
	n := 0
	ast.Inspect(f.Decl.Body, func(x ast.Node) bool {
		call, ok := x.(*ast.CallExpr)
		if !ok {
			return true
		}
		recv, m, ok := reflectMethod(info, call)
		if !ok || m != "IsZero" {
			return true
		}
		if _, m2, ok := reflectMethod(info, recv); !ok || m2 != "Elem" {
			return true
		}
		facts := c.FactsAt(f, call, true)
		admitsList, underDelete, excluded := false, false, false
		for _, ft := range facts {
			if ft.Kind != "cond" {
				continue
			}
			txt := types.ExprString(ft.Cond)
			if ft.Pos && strings.Contains(txt, "IsList()") && strings.Contains(txt, "IsTypeStructPtr") {
				admitsList = true
			}
			if ft.Pos && strings.HasSuffix(txt, ".delete") {
				underDelete = true
			}
			if !ft.Pos && isOMAssertIdent(ft.Cond) {
				excluded = true
			}
		}
		if !admitsList || !underDelete {
			return true
		}
		n++
		r.Check(excluded, fmt.Sprintf("ytypes.retrieveNodeContainer:struct-zero-test#%d", n), c.Pos(call.Pos()), "ordered maps excluded from the struct-zero test",
			"retrieveNodeContainer decides whether a field that may be an ordered map became empty with "+types.ExprString(call)+": an ordered map whose entries were all deleted is not the zero value of its struct, so it is not reset, its parent list entry is not removed once its leaves are gone, and a ghost entry with a nil key leaf remains (a later Diff of that tree fails)")
		return true
	})
	if n == 0 {
		r.Und("ytypes.retrieveNodeContainer:struct-zero-test", c.Pos(f.Decl.Pos()), "the post-delete struct-zero test of the arm admitting lists was not found")
	}
}

// ---- R-PATH-PREFIX-BOUNDARY (C22, C23) ---------------------------------------------------------

// rulePathPrefixBoundary: gnmidiff decides "this leaf lies at or below that path" on path strings.
// A plain string prefix test also holds for a sibling whose name merely starts with the last
// element's name (/e/id vs /e/id-type). A variable prefix must therefore be extended with the
// element separator in the test (the equal-path case being tested separately).
func rulePathPrefixBoundary(c *Ctx, r *Report) {
	r.Rule("R-PATH-PREFIX-BOUNDARY", "in package gnmidiff every strings.HasPrefix / trie prefix search with a non-constant path prefix appends the element separator \"/\" to it, so that a path is matched only at element boundaries", 2)
	n := 0
	for _, f := range c.AllFuncs("gnmidiff") {
		info := f.Info()
		ast.Inspect(f.Decl.Body, func(x ast.Node) bool {
			call, ok := x.(*ast.CallExpr)
			if !ok {
				return true
			}
			fn := FullName(Callee(info, call))
			var prefix ast.Expr
			switch {
			case fn == "strings.HasPrefix" && len(call.Args) == 2:
				prefix = call.Args[1]
			case strings.HasSuffix(fn, ".PrefixSearch") && len(call.Args) >= 1:
				prefix = call.Args[0]
			default:
				return true
			}
			if tv, ok := info.Types[prefix]; ok && tv.Value != nil {
				return true // constant prefix
			}
			n++
			good := false
			if be, ok := ast.Unparen(prefix).(*ast.BinaryExpr); ok && be.Op == token.ADD {
				if v, isC := ConstOf(info, be.Y); isC && strings.HasSuffix(strings.Trim(v, `"`), "/") {
					good = true
				}
			}
			r.Check(good, fmt.Sprintf("%s:path-prefix#%d", f.Name, n), c.Pos(call.Pos()), "prefix extended with the element separator",
				f.Name+" tests "+types.ExprString(call)+": a string prefix without the trailing \"/\" also matches a sibling whose name begins with the last element's name (…/id vs …/id-type), so leaves outside the path are treated as lying below it")
			return true
		})
	}
}

// ---- R-CREATE-ON-MISS (C10, C13, C31) ----------------------------------------------------------

// ruleCreateOnMiss: under modifyRoot the list walkers create the addressed entry when it does not
// exist. "Does not exist" must mean "no entry matched the keys", not "the traversal below the
// entries produced no nodes": a matched entry can produce none (the rest of the path is skipped,
// e.g. unknown to the schema under IgnoreExtraFields), and re-creating it replaces it.
func ruleCreateOnMiss(c *Ctx, r *Report) {
	r.Rule("R-CREATE-ON-MISS", "in retrieveNodeList (multi-key branch) and retrieveNodeOrderedList the creation of a new entry is guarded by the negation of a flag that is set where an entry matched the path's keys; an emptiness test of the collected nodes alone re-creates (and thereby wipes) an entry whose subtree was traversed without result", 2)
	for _, w := range []struct{ fn, creator string }{
		{"retrieveNodeList", P("ytypes") + ".insertAndGetKey"},
		{"retrieveNodeOrderedList", ""},
	} {
		f := c.MustFunc(r, "ytypes", w.fn)
		if f == nil {
			continue
		}
		info := f.Info()
		// creation sites
		var sites []*ast.CallExpr
		ast.Inspect(f.Decl.Body, func(x ast.Node) bool {
			call, ok := x.(*ast.CallExpr)
			if !ok {
				return true
			}
			if w.creator != "" && FullName(Callee(info, call)) == w.creator {
				sites = append(sites, call)
			}
			if w.creator == "" && FullName(Callee(info, call)) == P("internal/yreflect")+".MethodByName" && len(call.Args) == 2 {
				if v, isC := ConstOf(info, call.Args[1]); isC && v == `"AppendNew"` {
					sites = append(sites, call)
				}
			}
			return true
		})
		// flags set to true inside an `if match {…}`-style arm within a loop / visitor.
		setInMatchArm := func(obj types.Object) bool {
			found := false
			ast.Inspect(f.Decl.Body, func(x ast.Node) bool {
				is, ok := x.(*ast.IfStmt)
				if !ok {
					return true
				}
				if _, isID := ast.Unparen(is.Cond).(*ast.Ident); !isID {
					return true
				}
				for _, st := range is.Body.List {
					if as, ok := st.(*ast.AssignStmt); ok && len(as.Lhs) == 1 && ObjOf(info, as.Lhs[0]) == obj && constName(info, as.Rhs[0]) == "true" {
						found = true
					}
				}
				return true
			})
			return found
		}
		n := 0
		for _, call := range sites {
			facts := c.FactsAt(f, call, false)
			underModify := false
			for _, ft := range facts {
				if ft.Kind == "cond" && ft.Pos && strings.HasSuffix(types.ExprString(ft.Cond), ".modifyRoot") {
					underModify = true
				}
			}
			if !underModify {
				continue // the single-key branch creates under its own exact lookup
			}
			n++
			guarded := false
			for _, ft := range facts {
				if ft.Kind == "cond" && !ft.Pos {
					if obj := ObjOf(info, ft.Cond); obj != nil && setInMatchArm(obj) {
						guarded = true
					}
				}
			}
			r.Check(guarded, fmt.Sprintf("ytypes.%s:create#%d", w.fn, n), c.Pos(call.Pos()), "creation guarded by the matched-entry flag",
				w.fn+" creates a new list entry whenever the traversal collected no nodes: an existing entry whose subtree yields none (a path the schema does not know, skipped under IgnoreExtraFields) is replaced by a keys-only entry, or the update fails with a duplicate key")
		}
		if n == 0 {
			r.Und("ytypes."+w.fn+":create", c.Pos(f.Decl.Pos()), "no creation site under modifyRoot found")
		}
	}
}

// ---- R-UNION-COPY (C04, C05) -------------------------------------------------------------------

// ruleUnionCopy: union values live in interface fields; their copies must be as deep as those of
// other leaves. Two structural conditions on ygot's copy family: (1) in copySliceField, an element
// of interface kind is handed to copyInterfaceField before it is appended to the destination (a
// wrapper union is a pointer, a simplified binary member a byte slice: appending the element
// shares it); (2) the binary arm of copyInterfaceField builds its result with reflect.MakeSlice,
// not by appending onto reflect.Zero (which is nil for a zero-length value, i.e. "unset").
func ruleUnionCopy(c *Ctx, r *Report) {
	r.Rule("R-UNION-COPY", "ygot's copy of union values is deep and preserves zero-length binaries: copySliceField passes interface-kinded elements through copyInterfaceField before appending them, and copyInterfaceField's binary arm allocates its copy with reflect.MakeSlice", 2)
	if f := c.MustFunc(r, "ygot", "copySliceField"); f != nil {
		info := f.Info()
		ok := false
		for _, call := range CallsIn(info, f.Decl.Body, P("ygot")+".copyInterfaceField") {
			for _, ft := range c.FactsAt(f, call, false) {
				if ft.Kind == "cond" && ft.Pos && strings.Contains(types.ExprString(ft.Cond), "reflect.Interface") {
					ok = true
				}
			}
		}
		r.Check(ok, "ygot.copySliceField:interface-elements-copied", c.Pos(f.Decl.Pos()), "interface-kinded elements go through copyInterfaceField",
			"copySliceField appends the members of a leaf-list of unions as they are: the copy shares the wrapper structs (or the bytes of binary members) with the source, so changing the result of DeepCopy/MergeStructs changes the input")
	}
	if f := c.MustFunc(r, "ygot", "copyInterfaceField"); f != nil {
		info := f.Info()
		// the arm guarded by the Binary type name.
		good, found := false, false
		ast.Inspect(f.Decl.Body, func(x ast.Node) bool {
			// the arm is a case clause or an if body entered under a condition that mentions the
			// Binary type name, directly or through a named boolean (facts are expanded).
			var cc ast.Node
			var first ast.Stmt
			switch a := x.(type) {
			case *ast.CaseClause:
				if len(a.Body) > 0 {
					cc, first = a, a.Body[0]
				}
			case *ast.IfStmt:
				if len(a.Body.List) > 0 {
					cc, first = a.Body, a.Body.List[0]
				}
			}
			if cc == nil {
				return true
			}
			isBin := false
			for _, ft := range c.FactsAt(f, first, false) {
				if ft.Kind == "cond" && ft.Pos && strings.Contains(types.ExprString(ft.Cond), "BinaryTypeName") {
					isBin = true
				}
			}
			if !isBin {
				return true
			}
			found = true
			mk := len(CallsIn(info, cc, "reflect.MakeSlice")) > 0
			zero := false
			for _, z := range CallsIn(info, cc, "reflect.Zero") {
				_ = z
				zero = true
			}
			good = mk && !zero
			return false
		})
		switch {
		case !found:
			r.Und("ygot.copyInterfaceField:binary-arm", c.Pos(f.Decl.Pos()), "binary arm not found")
		default:
			r.Check(good, "ygot.copyInterfaceField:binary-arm", c.Pos(f.Decl.Pos()), "copy allocated with reflect.MakeSlice",
				"copyInterfaceField builds the copy of a binary union member by appending onto reflect.Zero: for a zero-length value the result is nil, which the merge reads as an unset field (DeepCopy is not equal to its input; a conflict with the other struct's value goes unnoticed)")
		}
	}
}

// ---- R-NIL-ENTRY, R-FLOAT-LEXICAL, R-PRECISION-BOUND (C20) -------------------------------------

// isGNMIMsgPtr: t is a pointer to a message struct of the gNMI proto package.
func isGNMIMsgPtr(t types.Type) bool {
	p, ok := t.(*types.Pointer)
	if !ok {
		return false
	}
	n, ok := p.Elem().(*types.Named)
	return ok && n.Obj().Pkg() != nil && n.Obj().Pkg().Path() == "github.com/openconfig/gnmi/proto/gnmi"
}

// directFieldUses: selections obj.Field (a struct field, not a method) in body that are not under a
// fact excluding obj == nil.
func directFieldUses(c *Ctx, f *FuncInfo, body ast.Node, obj types.Object) []*ast.SelectorExpr {
	info := f.Info()
	var out []*ast.SelectorExpr
	ast.Inspect(body, func(x ast.Node) bool {
		se, ok := x.(*ast.SelectorExpr)
		if !ok || ObjOf(info, se.X) != obj {
			return true
		}
		sel, ok := info.Selections[se]
		if !ok || sel.Kind() != types.FieldVal {
			return true
		}
		guarded := false
		for _, ft := range c.FactsAt(f, se, false) {
			if ft.Kind != "cond" {
				continue
			}
			if be, ok := ast.Unparen(ft.Cond).(*ast.BinaryExpr); ok && (be.Op == token.EQL || be.Op == token.NEQ) {
				if (ObjOf(info, be.X) == obj && isNilIdent(info, be.Y)) || (ObjOf(info, be.Y) == obj && isNilIdent(info, be.X)) {
					// `obj == nil` known false, or `obj != nil` known true.
					if (be.Op == token.EQL && !ft.Pos) || (be.Op == token.NEQ && ft.Pos) {
						guarded = true
					}
				}
			}
		}
		if !guarded {
			out = append(out, se)
		}
		return true
	})
	return out
}

// ruleNilEntry: the elements of a repeated message field can be nil (proto.Marshal accepts such a
// message). Code that ranges over one must not select a field of the element directly — it uses
// the generated nil-safe getter, or tests the element against nil first. The same holds, one call
// deep, for a function the element is handed to.
func ruleNilEntry(c *Ctx, r *Report) {
	r.Rule("R-NIL-ENTRY", "in ytypes/gnmi.go, gnmidiff and ygot/pathstrings.go no field of an element of a repeated gNMI message field (the range variable of a loop over []*gnmi.X, or the parameter of a module function it is passed to) is selected directly without a nil test of the element; the nil-safe getters are used instead", 6)
	scope := func(s string) bool {
		return s == "ytypes/gnmi.go" || s == "ygot/pathstrings.go" || strings.HasPrefix(s, "gnmidiff/")
	}
	n := 0
	for _, f := range c.funcsInScope(scope, libPkgs) {
		info := f.Info()
		ast.Inspect(f.Decl.Body, func(x ast.Node) bool {
			rs, ok := x.(*ast.RangeStmt)
			if !ok || rs.Value == nil {
				return true
			}
			el := ObjOf(info, rs.Value)
			if el == nil || !isGNMIMsgPtr(el.Type()) {
				return true
			}
			n++
			key := fmt.Sprintf("%s:range(%s)#%d", f.Name, shortExpr(rs.X), n)
			// `el, err = g(…, el)` with a callee that rejects a nil argument first: from there on
			// (the error being returned) el is the callee's non-nil result.
			guardPos := token.NoPos
			ast.Inspect(rs.Body, func(y ast.Node) bool {
				as, ok := y.(*ast.AssignStmt)
				if !ok || len(as.Rhs) != 1 || len(as.Lhs) < 1 || ObjOf(info, as.Lhs[0]) != el || guardPos != token.NoPos {
					return true
				}
				call, ok := as.Rhs[0].(*ast.CallExpr)
				if !ok {
					return true
				}
				g := c.funcOfCallee(Callee(info, call))
				if g == nil || g.Decl.Body == nil {
					return true
				}
				gps := paramObjs(g)
				for i, a := range call.Args {
					if ObjOf(info, a) == el && i < len(gps) && len(directFieldUses(c, g, g.Decl.Body, gps[i])) == 0 {
						guardPos = as.End()
					}
				}
				return true
			})
			var uses []*ast.SelectorExpr
			for _, u := range directFieldUses(c, f, rs.Body, el) {
				if guardPos == token.NoPos || u.Pos() < guardPos {
					uses = append(uses, u)
				}
			}
			if len(uses) > 0 {
				r.Bad(key, c.Pos(uses[0].Pos()), fmt.Sprintf("%s selects %s directly on an element of the repeated field %s: a nil element (accepted by proto.Marshal) is dereferenced and the call panics instead of returning an error", f.Name, types.ExprString(uses[0]), types.ExprString(rs.X)))
				return true
			}
			// one call deep.
			bad := ""
			var badPos token.Pos
			ast.Inspect(rs.Body, func(y ast.Node) bool {
				call, ok := y.(*ast.CallExpr)
				if !ok || bad != "" {
					return bad == ""
				}
				if guardPos != token.NoPos && call.Pos() > guardPos {
					return true
				}
				g := c.funcOfCallee(Callee(info, call))
				if g == nil || g.Decl.Body == nil {
					return true
				}
				gps := paramObjs(g)
				for i, a := range call.Args {
					if ObjOf(info, a) != el || i >= len(gps) {
						continue
					}
					// the caller may have tested the element already.
					if len(directFieldUses(c, f, a, el)) == 0 {
						callerGuard := false
						for _, ft := range c.FactsAt(f, call, false) {
							if be, ok := ast.Unparen(ft.Cond).(*ast.BinaryExpr); ok && ft.Kind == "cond" {
								if ObjOf(info, be.X) == el && isNilIdent(info, be.Y) && ((be.Op == token.EQL && !ft.Pos) || (be.Op == token.NEQ && ft.Pos)) {
									callerGuard = true
								}
							}
						}
						if callerGuard {
							continue
						}
					}
					if u := directFieldUses(c, g, g.Decl.Body, gps[i]); len(u) > 0 {
						bad = fmt.Sprintf("%s hands an element of %s to %s, which selects %s directly: a nil element panics", f.Name, types.ExprString(rs.X), g.Name, types.ExprString(u[0]))
						badPos = u[0].Pos()
					}
				}
				return true
			})
			if bad != "" {
				r.Bad(key, c.Pos(badPos), bad)
			} else {
				r.OK(key, c.Pos(rs.Pos()), "elements read through getters or after a nil test")
			}
			return true
		})
	}
}

// ruleFloatLexical: every strconv.ParseFloat in ytypes' decoders of decimal64 strings (leaf values
// and list keys) hands its result on only where the string also matched the decimal64 pattern.
func ruleFloatLexical(c *Ctx, r *Report) {
	r.Rule("R-FLOAT-LEXICAL", "in ytypes' string decoders (leaf.go, util_types.go) the result of strconv.ParseFloat is returned only where the same string matched the decimal64 pattern (regexp MatchString): ParseFloat alone accepts NaN, Inf, exponents and hexadecimal floats — a NaN list key is a map key that can never be found again and makes later lookups panic", 3)
	n := 0
	for _, f := range c.funcsInScope(func(s string) bool { return s == "ytypes/leaf.go" || s == "ytypes/util_types.go" }, libPkgs) {
		info := f.Info()
		pm := c.parentMap(f.File)
		for _, call := range CallsIn(info, f.Decl.Body, "strconv.ParseFloat") {
			as, ok := pm[call].(*ast.AssignStmt)
			if !ok || len(as.Lhs) != 2 {
				continue
			}
			v := ObjOf(info, as.Lhs[0])
			if v == nil {
				continue
			}
			n++
			key := fmt.Sprintf("%s:ParseFloat#%d", f.Name, n)
			bad := false
			var at token.Pos
			for _, rs := range returnsOf(f.Decl.Body) {
				if rs.Pos() < call.Pos() || len(rs.Results) == 0 || !mentionsObj(info, rs.Results[0], v) {
					continue
				}
				matched := false
				for _, ft := range c.FactsAt(f, rs, false) {
					if ft.Kind == "cond" && ft.Pos {
						if cl, ok := ast.Unparen(ft.Cond).(*ast.CallExpr); ok && FullName(Callee(info, cl)) == "regexp.Regexp.MatchString" {
							matched = true
						}
					}
				}
				if !matched {
					bad, at = true, rs.Pos()
				}
			}
			if at == token.NoPos {
				at = call.Pos()
			}
			r.Check(!bad, key, c.Pos(at), "parsed value returned under a successful pattern match",
				f.Name+" returns what strconv.ParseFloat produced without a lexical check of the string: \"NaN\" (and Inf, 1e3, 0x1p-2) is accepted; as a list key NaN creates a map entry no lookup can find, and SetNode/GetNode/DeleteNode panic")
		}
	}
}

// rulePrecisionBound: the precision of a gNMI Decimal64 is an unvalidated uint32; it may feed an
// exponentiation or a table only under a dominating comparison with a constant.
func rulePrecisionBound(c *Ctx, r *Report) {
	r.Rule("R-PRECISION-BOUND", "ytypes.sanitizeGNMI uses the Precision field of a gNMI Decimal64 (exponent of a power of ten, table index) only under a dominating comparison of that field with a constant: an unbounded precision makes 10^precision a computation of minutes and gigabytes, or an out-of-range index", 1)
	f := c.MustFunc(r, "ytypes", "sanitizeGNMI")
	if f == nil {
		return
	}
	info := f.Info()
	n := 0
	ast.Inspect(f.Decl.Body, func(x ast.Node) bool {
		se, ok := x.(*ast.SelectorExpr)
		if !ok || se.Sel.Name != "Precision" {
			return true
		}
		// skip the comparison itself.
		if be, ok := c.parentMap(f.File)[se].(*ast.BinaryExpr); ok {
			switch be.Op {
			case token.GTR, token.GEQ, token.LSS, token.LEQ:
				return true
			}
		}
		n++
		bounded := false
		for _, ft := range c.FactsAt(f, se, false) {
			if ft.Kind != "cond" {
				continue
			}
			if be, ok := ast.Unparen(ft.Cond).(*ast.BinaryExpr); ok {
				switch be.Op {
				case token.GTR, token.GEQ, token.LSS, token.LEQ:
					if sameExpr(info, be.X, se) || sameExpr(info, be.Y, se) {
						bounded = true
					}
				}
			}
		}
		r.Check(bounded, fmt.Sprintf("ytypes.sanitizeGNMI:precision-use#%d", n), c.Pos(se.Pos()), "use dominated by a bound on the precision",
			"sanitizeGNMI uses "+types.ExprString(se)+" without a bound: a TypedValue of a few bytes with precision 2^30 keeps SetNode computing 10^precision for minutes (or indexes a table out of range)")
		return true
	})
	if n == 0 {
		r.OK("ytypes.sanitizeGNMI:precision-use", c.Pos(f.Decl.Pos()), "the precision is not used")
	}
}

// ---- R-OM-DISJOINT (C05) -----------------------------------------------------------------------

// ruleOMDisjoint: two ordered lists may be merged when src is an in-order subset of dst or the two
// are disjoint. "Disjoint" is a statement about every key of src; the in-order scan counter being
// zero only says that the first key of src was not found.
func ruleOMDisjoint(c *Ctx, r *Report) {
	r.Rule("R-OM-DISJOINT", "ygot.orderedMapKeysMergeable accepts the merge only when its in-order scan matched every key of src, or under a disjointness flag computed by a loop over all keys of src against the keys of dst; the scan counter being zero is not evidence of disjointness", 1)
	f := c.MustFunc(r, "ygot", "orderedMapKeysMergeable")
	if f == nil {
		return
	}
	info := f.Info()
	n := 0
	for _, rs := range returnsOf(f.Decl.Body) {
		if len(rs.Results) != 1 || !isNilIdent(info, rs.Results[0]) {
			continue
		}
		for _, ft := range c.FactsAt(f, rs, false) {
			if !ft.Pos {
				continue
			}
			var conds []ast.Expr
			switch ft.Kind {
			case "cond":
				conds = []ast.Expr{ft.Cond}
			}
			_ = conds
		}
		// the case clause (or if) that leads to this success return.
		pm := c.parentMap(f.File)
		var guards []ast.Expr
		for p := pm[ast.Node(rs)]; p != nil; p = pm[p] {
			if cc, ok := p.(*ast.CaseClause); ok {
				guards = cc.List
				break
			}
			if is, ok := p.(*ast.IfStmt); ok {
				guards = []ast.Expr{is.Cond}
				break
			}
		}
		for _, g := range guards {
			n++
			key := fmt.Sprintf("ygot.orderedMapKeysMergeable:accept#%d", n)
			txt := types.ExprString(g)
			switch {
			case strings.Contains(txt, "len("):
				r.OK(key, c.Pos(g.Pos()), "every key of src matched in order: "+txt)
			default:
				// a boolean local assigned false inside a loop over the src keys on a hit.
				good := false
				if obj := ObjOf(info, g); obj != nil {
					ast.Inspect(f.Decl.Body, func(y ast.Node) bool {
						loop, ok := y.(*ast.RangeStmt)
						if !ok {
							return true
						}
						ast.Inspect(loop.Body, func(z ast.Node) bool {
							if as, ok := z.(*ast.AssignStmt); ok && len(as.Lhs) == 1 && ObjOf(info, as.Lhs[0]) == obj && constName(info, as.Rhs[0]) == "false" {
								good = true
							}
							return true
						})
						return true
					})
				}
				r.Check(good, key, c.Pos(g.Pos()), "disjointness established by a loop over the keys of src",
					"orderedMapKeysMergeable accepts the merge under "+txt+", which does not establish that no key of src is a key of dst: [a b] + [x b] is merged into [a b x] although the lists overlap in b and src is not a subset of dst")
			}
		}
	}
	if n == 0 {
		r.Und("ygot.orderedMapKeysMergeable:accept", c.Pos(f.Decl.Pos()), "no guarded success return found")
	}
}

// ---- R-REGEXP-ESCAPE-STATE (C06) ---------------------------------------------------------------

// ruleRegexpEscapeState: fixYangRegexp walks the pattern rune by rune with an "inside an escape"
// state. Two of its decisions are about what a rune *means* and therefore depend on that state:
// a final '$' is the anchor only if it is not escaped; a '^' after '[' negates a set only if the
// '[' is not escaped. Each condition that takes one of these decisions must read the escape state
// (or a variable derived from it).
func ruleRegexpEscapeState(c *Ctx, r *Report) {
	r.Rule("R-REGEXP-ESCAPE-STATE", "in util.fixYangRegexp every condition that treats a final '$' as the pattern's anchor, or a '^' following '[' as a set negation, also reads the escape state: an escaped '$' or '[' is a literal, and treating it otherwise yields an expression that does not compile or can match nothing", 2)
	f := c.MustFunc(r, "util", "fixYangRegexp")
	if f == nil {
		return
	}
	info := f.Info()
	// the escape-state variable: assigned from an expression comparing the rune with '\\'.
	derived := map[types.Object]bool{}
	ast.Inspect(f.Decl.Body, func(x ast.Node) bool {
		as, ok := x.(*ast.AssignStmt)
		if !ok || len(as.Lhs) != 1 || len(as.Rhs) != 1 {
			return true
		}
		if strings.Contains(types.ExprString(as.Rhs[0]), `'\\'`) {
			if o := ObjOf(info, as.Lhs[0]); o != nil {
				derived[o] = true
			}
		}
		return true
	})
	if len(derived) == 0 {
		r.Und("util.fixYangRegexp:escape-state", c.Pos(f.Decl.Pos()), "escape-state variable not found")
		return
	}
	for changed := true; changed; {
		changed = false
		ast.Inspect(f.Decl.Body, func(x ast.Node) bool {
			as, ok := x.(*ast.AssignStmt)
			if !ok || len(as.Lhs) != 1 || len(as.Rhs) != 1 {
				return true
			}
			o := ObjOf(info, as.Lhs[0])
			if o == nil || derived[o] {
				return true
			}
			for d := range derived {
				if mentionsObj(info, as.Rhs[0], d) {
					derived[o] = true
					changed = true
				}
			}
			return true
		})
	}
	readsState := func(e ast.Expr) bool {
		for d := range derived {
			if mentionsObj(info, e, d) {
				return true
			}
		}
		return false
	}
	// decision expressions: boolean expressions (if conditions, definitions of boolean locals).
	var exprs []ast.Expr
	ast.Inspect(f.Decl.Body, func(x ast.Node) bool {
		switch s := x.(type) {
		case *ast.IfStmt:
			exprs = append(exprs, s.Cond)
		case *ast.AssignStmt:
			if len(s.Rhs) == 1 {
				if tv, ok := info.Types[s.Rhs[0]]; ok && tv.Type != nil && tv.Type.String() == "bool" {
					exprs = append(exprs, s.Rhs[0])
				}
			}
		}
		return true
	})
	nd, nc := 0, 0
	for _, e := range exprs {
		txt := types.ExprString(e)
		if strings.Contains(txt, "== '$'") && strings.Contains(txt, "last") && !strings.Contains(txt, "!= last") {
			nd++
			ok := readsState(e)
			if !ok {
				// a condition made only of booleans that were themselves checked.
				if id, isID := ast.Unparen(e).(*ast.Ident); isID && derived[info.ObjectOf(id)] {
					ok = true
				}
			}
			r.Check(ok, fmt.Sprintf("util.fixYangRegexp:final-dollar#%d", nd), c.Pos(e.Pos()), "the anchor decision reads the escape state",
				"fixYangRegexp treats a final '$' as the anchor of the pattern under "+txt+" without reading the escape state: for '[0-9]+\\$' it emits '^([0-9]+\\)$', which does not compile, so every value fails the pattern")
		}
		if strings.Contains(txt, "'['") {
			nc++
			r.Check(readsState(e), fmt.Sprintf("util.fixYangRegexp:caret-after-bracket#%d", nc), c.Pos(e.Pos()), "the set-negation decision reads the escape state of the bracket",
				"fixYangRegexp leaves a '^' that follows '[' unescaped under "+txt+" whether or not the '[' itself is escaped: for 'a\\[^b' the caret becomes a mid-pattern anchor and no string matches")
		}
	}
	if nd == 0 {
		r.Und("util.fixYangRegexp:final-dollar", c.Pos(f.Decl.Pos()), "no decision about the final '$' found")
	}
}

// ---- R-UNION-EMPTY (C19, C20) ------------------------------------------------------------------

// ruleUnionEmpty: a YANG empty is the named boolean type YANGEmpty. Two places in ygot's renderer
// meet it inside a union: (1) jsonValue's wrapper-union branch must give it the empty-leaf
// rendering ([null] in RFC 7951 JSON), like the simplified-union arm does; (2) no unchecked
// assertion to the predeclared type bool may be applied to a value that is only known to be of
// *kind* Bool — for YANGEmpty it panics.
func ruleUnionEmpty(c *Ctx, r *Report) {
	r.Rule("R-UNION-EMPTY", "ygot.jsonValue's wrapper-union branch tests the unwrapped value for the YANGEmpty type (EmptyTypeName) before the generic scalar rendering, and ygot's renderer has no unchecked assertion to bool of a value known only by its reflect kind", 2)
	if f := c.MustFunc(r, "ygot", "jsonValue"); f != nil {
		info := f.Info()
		ok, found := false, false
		ast.Inspect(f.Decl.Body, func(x ast.Node) bool {
			cc, isCC := x.(*ast.CaseClause)
			if !isCC {
				return true
			}
			wrapper := false
			for _, e := range cc.List {
				if len(CallsIn(info, e, P("util")+".IsValueInterfaceToStructPtr")) > 0 {
					wrapper = true
				}
			}
			if !wrapper {
				return true
			}
			found = true
			ast.Inspect(cc, func(y ast.Node) bool {
				if id, isID := y.(*ast.Ident); isID && id.Name == "EmptyTypeName" {
					ok = true
				}
				if se, isSel := y.(*ast.SelectorExpr); isSel && se.Sel.Name == "EmptyTypeName" {
					ok = true
				}
				return true
			})
			return false
		})
		if !found {
			r.Und("ygot.jsonValue:wrapper-union:empty", c.Pos(f.Decl.Pos()), "wrapper-union branch not found")
		} else {
			r.Check(ok, "ygot.jsonValue:wrapper-union:empty", c.Pos(f.Decl.Pos()), "wrapper-union branch handles the empty type",
				"jsonValue's wrapper-union branch does not test for the YANGEmpty type: an empty member of a wrapper union is rendered as true instead of [null]")
		}
	}
	n := 0
	for _, f := range c.funcsInScope(func(s string) bool { return s == "ygot/render.go" }, libPkgs) {
		info := f.Info()
		pm := c.parentMap(f.File)
		ast.Inspect(f.Decl.Body, func(x ast.Node) bool {
			ta, ok := x.(*ast.TypeAssertExpr)
			if !ok || ta.Type == nil {
				return true
			}
			tv, ok := info.Types[ta.Type]
			if !ok || tv.Type == nil || tv.Type.String() != "bool" {
				return true
			}
			n++
			checked := false
			if as, ok := pm[ta].(*ast.AssignStmt); ok && len(as.Lhs) == 2 {
				checked = true
			}
			if vs, ok := pm[ta].(*ast.ValueSpec); ok && len(vs.Names) == 2 {
				checked = true
			}
			r.Check(checked, fmt.Sprintf("%s:assert-bool#%d", f.Name, n), c.Pos(ta.Pos()), "comma-ok assertion",
				f.Name+" asserts "+types.ExprString(ta)+" unchecked: a value of the named type YANGEmpty has kind Bool but is not a bool, so the assertion panics (an empty member in a leaf-list of wrapper unions)")
			return true
		})
	}
	if n == 0 {
		r.OK("ygot/render.go:assert-bool", "-", "no assertion to bool in the renderer")
	}
}
