#!/bin/bash
# run_benign.sh <tag>...: negative controls. For each behaviour-preserving refactoring written by a
# sub-agent (/tmp/wt/<tag>/BENIGN/<n>/patch.diff, or already stored under /verif/benign/<tag>-<n>/):
# copy /repo to a scratch directory, apply the patch, confirm that the pinned suite still passes, run
# every check against the copy, and report which checks raise an alarm (any is a false alarm unless
# the refactoring turns out not to be behaviour-preserving). Stores the patch under /verif/benign/.
cd /verif
export GOFLAGS=-mod=mod GOPROXY=off
unset GOTOOLCHAIN GOSUMDB GOWORK
for tag in "$@"; do
  src=/tmp/wt/$tag/BENIGN
  if [ -d $src ]; then
    for n in $(ls $src); do
      [ -f $src/$n/patch.diff ] || continue
      mkdir -p benign/$tag-$n; cp $src/$n/patch.diff benign/$tag-$n/patch.diff; cp $src/$n/README.md benign/$tag-$n/README.md 2>/dev/null
    done
  fi
  for d in benign/$tag-*; do
    id=$(basename $d)
    w=$(mktemp -d /tmp/benigncopy.XXXXXX)
    rsync -a --exclude=.git /repo/ $w/
    if ! (cd $w && git apply --whitespace=nowarn /verif/$d/patch.diff 2>$w/apply.err); then
      echo "== $id: patch does not apply: $(head -1 $w/apply.err)"; rm -rf $w; continue
    fi
    suite=ok
    if [ -z "$SKIP_SUITE" ]; then tools/baseline.sh $w > $w/base.log 2>&1 || suite="SUITE-FAILS($(grep -c MISSING $w/base.log))"; fi
    YGOT_REPO=$w ${YGOTSA_BIN:-/verif/bin/ygotsa} check all --no-evidence > $w/check.log 2>&1
    hits=$(grep -E "^VIOLATION|^UNDECIDED" $w/check.log | sed -E 's/ replay=.*//' | sort -u | tr '\n' ';')
    grep -E "^  (violated|undecided)" $w/check.log | sort -u > /verif/$d/alarms.txt
    [ -s /verif/$d/alarms.txt ] || rm -f /verif/$d/alarms.txt
    echo "== $id suite=$suite alarms: ${hits:-none}"
    rm -rf $w
  done
done
