#!/bin/bash
# reverify_seed.sh <seed-id>...: re-confirms stored seeds against the CURRENT /repo working tree in a
# scratch copy: demo passes clean, fails with the patch, pinned suite passes with the patch.
export GOFLAGS=-mod=mod GOPROXY=off
for id in "$@"; do
  d=/verif/seeded/$id
  dest=$(python3 -c "import json;print(json.load(open('$d/meta.json'))['demo_destination'])")
  w=$(mktemp -d /tmp/reverify.XXXXXX)
  rsync -a --exclude=.git /repo/ $w/
  mkdir -p $w/$(dirname $dest); cp $d/demo_test.go.txt $w/$dest
  pkg=./$(dirname $dest)/
  tests=$(grep -oE '^func (Test[A-Za-z0-9_]+)' $w/$dest | awk '{print $2}' | paste -sd'|')
  (cd $w && go test -vet=off -count=1 -run "^($tests)\$" $pkg > $w/clean.log 2>&1) || { echo "$id: FAIL demo does not pass on clean tree"; tail -5 $w/clean.log; rm -rf $w; continue; }
  (cd $w && git apply $d/patch.diff) || { echo "$id: FAIL patch does not apply"; rm -rf $w; continue; }
  if (cd $w && go test -vet=off -count=1 -run "^($tests)\$" $pkg > $w/patched.log 2>&1); then echo "$id: FAIL demo passes with patch"; rm -rf $w; continue; fi
  rm -f $w/$dest
  if /verif/tools/baseline.sh $w > $w/base.log 2>&1; then echo "$id: RECONFIRMED"; else echo "$id: FAIL suite fails with patch"; tail -5 $w/base.log; fi
  rm -rf $w
done
