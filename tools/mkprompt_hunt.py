#!/usr/bin/env python3
"""mkprompt_hunt.py <tag> Cxx [Cyy ...] -> prompt for a sub-agent that looks for inputs on which the
UNCHANGED code violates the given properties (no source changes). The agent gets only the property
texts and its own scratch worktree /tmp/wt/<tag>."""
import json, sys
tag, pids = sys.argv[1], sys.argv[2:]
props = {}
for l in open('/verif/properties.jsonl'):
    p = json.loads(l)
    props[p['id']] = p
wt = f"/tmp/wt/{tag}"
parts = []
for pid in pids:
    p = props[pid]
    parts.append(f"""PROPERTY {pid}
TITLE: {p['title']}
STATEMENT: {p['statement']}
QUANTIFIED OVER: {p['quantifier']['text']}
ANCHORS (where the mechanism lives): {json.dumps(p['anchors'].get('mechanism', []))} in files {p['anchors'].get('files', [])}
""")
print(f"""You are helping test the Go library openconfig/ygot. Your own scratch git worktree of the repository is at {wt} (work ONLY there; never touch /repo or /verif, and do not read /verif).

Below are {len(pids)} properties that the library is supposed to satisfy. Your task is NOT to change the library: it is to find inputs (data trees, schemas, JSON documents, paths, messages, option combinations, sequences of calls) for which the code AS IT IS violates one of these properties. Look especially at unusual but legal inputs: zero values ("" and 0) of by-value types, empty slices and maps, enumerations and unions held by value, binary and empty leaves, ordered-by-user lists, multi-key lists, keys containing special characters, names that differ only in separators or case, nested lists, choice/case, presence containers, leafrefs, module prefixes, compressed vs. uncompressed generated code, wrapper vs. simplified unions, and the interaction of two options. Read the code, form a hypothesis, and confirm it by running a small Go test.

{chr(10).join(parts)}
Rules:
- Do not modify non-test source files. Write demonstration tests only (new files named zz_hunt_*_test.go, in any package directory of the worktree; for the gnmidiff package, whose own tests do not build in this sandbox, put the test in a new sub-directory package such as gnmidiff/zzhunt1/).
- A finding counts only if you have a Go test that FAILS on the unchanged tree because the property is violated, and you can say in one or two sentences why the observed behaviour contradicts the property text (not merely why it is surprising). Behaviour that is an explicit, documented limitation in a code comment still counts, but say that it is documented.
- An input for which the library returns an error or refuses to generate code is NOT a violation unless the property says that input must be accepted.
- Code generation can be run in-process: see gogen/codegen_test.go and protogen/codegen_test.go for how the generators are called from tests; generated Go code can be written to a new directory inside the worktree and compiled with `go build` / `go vet`. The compiled generated packages integration_tests/schemaops/ctestschema (compressed) and utestschema (uncompressed) are available.
- Environment: no network. Always run go with `GOFLAGS=-mod=mod GOPROXY=off` exported. The packages exampleoc, exampleoc/opstateoc, exampleoc/wrapperunionoc and uexampleoc have been emptied in this sandbox, so they and the packages whose tests import them (gnmidiff tests, demo/*, integration_tests/uncompressed, */schema_tests) do not build; ignore those. Do NOT use `git stash`.

Deliverables: for each confirmed finding N (at most 4, the most clear-cut first) create {wt}/HUNT/N/ containing
  - demo_test.go : the failing test (self-contained), 
  - README.md    : which property, the input, what happens, what the property requires instead, where demo_test.go must be copied to (path relative to the repo root) and the exact `go test` command you ran with its output.
If you find nothing after an honest search, say so and list what you tried. Before finishing, remove your test files from the package directories (keep them only under HUNT/), so that `git status` shows only HUNT/ as untracked. Report briefly.""")
