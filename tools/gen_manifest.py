#!/usr/bin/env python3
"""Generates /verif/MANIFEST.json from the tables below. Run after changing which
properties are claimed. Claimed = has an entry in CHECKS; everything else must be in NA."""
import json, os, sys
ROOT = os.path.dirname(os.path.dirname(os.path.abspath(__file__)))

SETUP = ("cd /verif/ygotsa && env -u GOWORK GOFLAGS=-mod=mod GOPROXY=off GOSUMDB=off GOTOOLCHAIN=local "
         "go build -o /verif/bin/ygotsa . ")

# id -> (technique, level text, level note)
CHECKS = {}
NA = {}
exec(open(os.path.join(ROOT, "tools", "manifest_src.py")).read())

props = [json.loads(l)["id"] for l in open(os.path.join(ROOT, "properties.jsonl"))]
checks = []
for pid in props:
    if pid in CHECKS:
        tech, text, note = CHECKS[pid]
        checks.append({
            "property_id": pid,
            "quick_cmd": f"./bin/ygotsa check {pid} --tier quick",
            "thorough_cmd": f"./bin/ygotsa check {pid} --tier thorough",
            "evidence_file": f"/verif/evidence/{pid}.json",
            "replay_cmd_template": f"./bin/ygotsa check {pid} --tier quick  # deterministic: re-derives every obligation listed in {{path}} from /repo's working tree",
            "engine": "ygotsa",
            "level_claimed": {"category": "other", "text": text, "design_ref": "DESIGN.md §5 (" + pid + ")"},
            "level_note": note,
            "technique": tech,
        })
    elif pid not in NA:
        sys.exit(f"{pid}: neither claimed nor not_applicable")
m = {
    "version": 1,
    "setup_cmd": SETUP,
    "hooks": {
        "guard": "verif",
        "enable": "no hooks: the analyser reads /repo's working tree with the default build tags; nothing in /repo is instrumented",
        "baseline_off_cmd": "cd /repo && go test -mod=mod -json -vet=off -count=1 -timeout 25m ./...",
        "source_commits": [],
        "add_only": True,
    },
    "engines": [{
        "name": "ygotsa",
        "path": "/verif/ygotsa",
        "serves_properties": [c["property_id"] for c in checks],
        "kind_free_text": "repository-specific static analyser (go/packages + go/types + go/cfg-style lexical guards + go/ssa + VTA call graph, x/tools v0.29.0); decides structural necessary conditions from /repo's current source, executes nothing from /repo",
    }],
    "checks": checks,
    "notes": "All checks are static analyses of /repo's working tree (nothing from /repo is executed). Each decides the structural clauses named in DESIGN.md §5 and in its evidence file's coverage.explanation. Known genuine defects are listed in /verif/known_findings.json.",
    "not_applicable": [{"property_id": p, "reason": NA[p]} for p in props if p in NA and p not in CHECKS],
}
json.dump(m, open(os.path.join(ROOT, "MANIFEST.json"), "w"), indent=1)
print(f"claimed {len(checks)}, not_applicable {len(m['not_applicable'])}")
