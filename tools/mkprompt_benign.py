#!/usr/bin/env python3
"""mkprompt_benign.py <tag> <file>...: prompt for a sub-agent asked for BEHAVIOUR-PRESERVING refactorings
of the given files (negative controls: the checks must stay silent on them)."""
import sys
tag, files = sys.argv[1], sys.argv[2:]
wt = f"/tmp/wt/{tag}"
print(f"""You are helping test a static-analysis effort for the Go library openconfig/ygot. Your own scratch git worktree of the repository is at {wt} (work ONLY there; never touch /repo or /verif, and do not read /verif).

Your task: produce FOUR independent, realistic, strictly BEHAVIOUR-PRESERVING refactorings, each confined to one or two of these files (non-test source only):
  {', '.join(files)}
Each refactoring must keep the exact observable behaviour of every function for every input (same results, same errors, same side effects, same generated output) — the kind of clean-up a maintainer merges without changing any test: renaming local variables, inverting an `if` and swapping its branches, replacing `if !ok {{ return err }}` chains with an equivalent switch (or vice versa), hoisting a repeated sub-expression into a local, extracting a small helper function (or inlining one), reordering independent statements, replacing a `for i := 0; i < n; i++` loop by an equivalent `range`, adding comments, splitting a long condition into named booleans. Touch the core logic of the functions, not just comments, and make each refactoring 10-50 changed lines. Prefer the functions with the most intricate control flow (dispatch switches, loops with early exits, error handling chains) over trivial helpers. Vary the kind of refactoring across the four. Do NOT change behaviour, do NOT fix bugs, do NOT change exported API.

For each refactoring N in 1..4 create {wt}/BENIGN/N/ containing
  - patch.diff : `git diff` of the source change only (must apply with `git apply` on a clean worktree),
  - README.md  : 3-6 lines: what was restructured and why it is behaviour-preserving.
Verify each one: it compiles and `go test -vet=off -count=1` for the packages you touched still passes (packages exampleoc, uexampleoc and those importing them are emptied in this sandbox and fail to build before and after; ignore them).

Environment: no network. Always run go with `GOFLAGS=-mod=mod GOPROXY=off` exported. Do NOT use `git stash` (shared between sibling worktrees): use `git diff > file`, `git apply`, `git apply -R`, `git checkout -- .`. Before finishing, restore the worktree to a clean state (`git checkout -- .`), leaving only BENIGN/ untracked. Report briefly what the four refactorings are.""")
