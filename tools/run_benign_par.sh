#!/bin/bash
# run_benign_par.sh [-j N] [id ...]: the stored negative controls (/verif/benign/<id>/patch.diff) in
# parallel. Like run_benign.sh with SKIP_SUITE=1: copy /repo to a scratch directory, apply the
# patch, run every check against the copy, report alarms. (The pinned suite is run by
# run_benign.sh when a control is first stored.)
cd /verif
J=6
if [ "$1" = "-j" ]; then J=$2; shift 2; fi
IDS=${@:-$(ls benign | grep -v README)}
one() {
  id=$1; d=/verif/benign/$id
  [ -f $d/patch.diff ] || exit 0
  w=$(mktemp -d /tmp/benigncopy.XXXXXX)
  rsync -a --exclude=.git /repo/ $w/
  if ! (cd $w && git apply --whitespace=nowarn $d/patch.diff 2>$w/apply.err); then
    echo "== $id: patch does not apply: $(head -1 $w/apply.err)"; rm -rf $w; exit 0
  fi
  YGOT_REPO=$w ${YGOTSA_BIN:-/verif/bin/ygotsa} check all --no-evidence > $w/check.log 2>&1
  hits=$(grep -E "^VIOLATION|^UNDECIDED" $w/check.log | sed -E 's/ replay=.*//' | sort -u | tr '\n' ';')
  grep -E "^  (violated|undecided)" $w/check.log | sort -u > $d/alarms.txt
  [ -s $d/alarms.txt ] || rm -f $d/alarms.txt
  echo "== $id alarms: ${hits:-none}"
  rm -rf $w
}
export -f one
export YGOTSA_BIN
printf "%s\n" $IDS | xargs -P $J -I{} bash -c 'one {}' | sort
