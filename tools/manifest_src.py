# Source of MANIFEST.json (see gen_manifest.py).
ASSUME = "Trusted: go/types, go/ssa, x/tools call graphs, the analyser's own models; the clause decided is a necessary condition of the property, not the behaviour itself."
NOT_YET = "no static check built yet for this property in this tree (see DESIGN.md §5 for the planned rule); listed as not claimed rather than claimed without a check"

CHECKS["C01"] = ("sibling type-table agreement (AST + go/types table extraction)",
    "Decides that the generator's YANG→Go type map, the JSON decoder's type maps/assertions, the encoder's wide-number stringification and the leaf-list element tables agree for every YANG kind; a disagreement is a kind whose every value fails the JSON round trip. Behavioural round-trip equality is not decided.", ASSUME)

for _p in ["C02","C03","C04","C05","C06","C07","C08","C09","C11","C12","C13","C14","C15","C16","C17","C18","C19","C20","C21","C22","C24","C25","C26","C27","C28","C29","C30","C31","C32","C33","C34"]:
    NA[_p] = NOT_YET
NA["C10"] = "quantifies over runtime trees, paths and payloads; its structural clauses (key and value tables) are decided under C16/C18 and the frame clause has no static handle here (DESIGN.md §7)"
NA["C23"] = "classification of runtime leaves after single-leaf edits; no clause visible in code shape beyond those claimed under C22 (DESIGN.md §7)"
