# Source of MANIFEST.json (see gen_manifest.py).
ASSUME = ("Trusted: go/packages + go/types of the default toolchain, the analyser's lexical-dominance (FactsAt) and provenance models, "
          "its frozen tables of writer/normaliser/parser functions; dependencies (protobuf, goyang, encoding/json, regexp) are not analysed. "
          "The clause decided is a structural necessary condition of the property, never the behaviour itself.")
NOT_YET = "no static check built yet for this property in this tree (DESIGN.md §5 names the planned rule); not claimed rather than claimed without a check"

def _c(tech, text):
    return (tech, text + " Level 'other': a static decision of named structural clauses over every path of the code inspected; what is not decided is listed in the evidence file.", ASSUME)

CHECKS["C01"] = _c("sibling type-table agreement (AST + go/types table extraction)",
    "Decides that the generator's YANG→Go type map, the JSON decoder's type maps and per-kind assertions, the encoder's wide-number stringification and the leaf-list element tables agree for every YANG kind; a disagreement is a kind whose every value fails the JSON round trip.")
CHECKS["C02"] = _c("type-table agreement + writer/reader agreement on empty leaf-lists + skip-reason, sign-conversion, integer-base, constant-format and wildcard-guard lints",
    "Decides that the gNMI wrapper produced per YANG kind is one the decoder accepts, every key kind has a string form and both parsers, the leaf walkers skip a field only for accepted reasons and never emit the empty leaf-list the decoder refuses, integers are parsed and rendered in base 10, no sign-changing or 64-bit-to-float conversion touches a value, and '*' is a wildcard only under GetNode's option.")
CHECKS["C03"] = _c("lexical guard analysis of ygot.diff + skip-reason and empty-leaf-list writer/reader rules + append-ownership lint",
    "Decides the guards of diff (delete ⇔ absent in modified; update ⇔ !reflect.DeepEqual; additions ⇔ absent in original ∧ no IgnoreAdditions), PathToString-keyed leaf maps, cloned parent paths, and that no diff code appends onto a slice it does not own.")
CHECKS["C04"] = _c("provenance analysis of destination sinks in the copy family",
    "Decides that every value written into a DeepCopy/Merge destination is fresh, the destination's own, or a source value proved non-reference by a dominating guard; deepCopy copies into a fresh root; MergeStructs merges into the deep copy.")
CHECKS["C05"] = _c("copy-family provenance + option-forwarding lint + interface-identity lint + unset-source and binary-leaf merge rules (by-value fields copied only when set; list merge never applied to Binary)",
    "Decides that merge options reach every recursive copy call, that MergeStructs deep-copies a and never uses an input as destination, and the copy-family sink discipline.")
CHECKS["C06"] = _c("abstract evaluation of isInRange over 13 orderings + unit (byte/rune, reaching definitions) and sign-conversion lints + memo-key completeness of the regexp cache (parameter dependence analysis)",
    "Decides that isInRange is the closed interval under every weak ordering of (val,min,max), isInRanges is ∃ with empty⇒true, lengths are counted in the RFC's units, every pattern is checked without early success, and no byte/rune or sign confusion exists in the validators and the pattern sanitizer.")
CHECKS["C07"] = _c("static-call reachability of checkers from Validate + silent-skip lint",
    "Decides that each checker the property names is statically reachable from Validate through its dispatcher arm and that no validator loop silently skips an iteration; three unreachable checks are recorded as known findings.")
CHECKS["C08"] = _c("partial evaluation of the rune state machines against the encoder's escape set + constant-format-string lint",
    "Decides that every rune the decoders interpret inside a key value is escaped by the encoder, that the splitter tracks escapes inside keys, that no non-injective normaliser is applied, and that keys are formatted sorted; one unescaped rune ('\\\\') is a recorded known finding.")
CHECKS["C09"] = _c("early-return discipline in relation folds (AST) + wildcard operand tracing",
    "Decides that only the absorbing relation is returned from inside the comparison loops, that no map-range in util/gnmi.go returns two different results, and that '*' is compared on the sides that may carry it.")
CHECKS["C11"] = _c("write-gating by flags, provenance of reflect writes, shared-parameter store lint, append-ownership lint (AST + go/types, static call closure)",
    "Decides absence of input writes in ygot's own code reachable from the listed APIs: retrieveNode writes gated by flags GetNode never sets, reflect mutators only on fresh values, no store through shared-input parameters, no append onto unowned slices, gnmidiff mutates only fresh roots.")
CHECKS["C12"] = _c("sibling rule on recursive descents + write gating + wildcard guard (lexical dominance)",
    "Decides that every descent that can run under delete is followed by an emptiness test and removal, that all removals are gated by args.delete, and that '*' is literal for DeleteNode.")
CHECKS["C13"] = _c("statement-order and loop-shape analysis of ytypes/gnmi.go",
    "Decides the phase order delete ≺ replace ≺ update, per-replace delete-then-write, in-order iteration with the prefix joined, that no notification/path is skipped, and the atomic prefix delete.")
CHECKS["C14"] = _c("flag monotonicity + guard analysis of pruneBranchesInternal (lexical facts, and control-flow path facts over go/cfg where branches share a tail) + slice-emptiness lint (Binary is a value)",
    "Decides that the result flag is monotone, every Set writes a zero value into an empty struct-pointer/ordered-map field, ordered maps are recognised before dereference, and leaf fields are compared with their zero value.")
CHECKS["C16"] = _c("type-table agreement for key kinds + exact-key-comparison, integer-base, constant-format, sign-conversion and wildcard-guard lints",
    "Decides that every supported key kind has a string form and both parsers, that binary keys are rejected by the generator, that no sign-changing conversion formats a key and that '*' is literal outside GetNode's wildcard option.")
CHECKS["C18"] = _c("float→int precondition rule, per-arm must-use of range-checking parsers, parse-error discipline",
    "Decides that float→integer conversions are preceded by a sound integrality and range test, that integer TypedValues reach leaves only through StringToType, that every parse error is returned, and that kind tests precede both dispatches.")
CHECKS["C19"] = _c("format-call lint + per-arm must-call + module-forwarding rule in ygot/render.go",
    "Decides float formatting ('f',-1,64), the encoder/decoder agreement on stringified kinds, base64/[null]/enum-name arms under RFC7951, the module-prefix clearing rule and forwarding of the parent module through recursive JSON calls.")
CHECKS["C21"] = _c("global-write, lockset, shared-parameter store and append-ownership lints",
    "Decides absence of unsynchronised shared writes in ygot's own code: globals only under never-written debug flags, regexp cache maps under their paired mutex, no stores through shared inputs, no appends onto unowned slices, gated retrieveNode writes.")

CHECKS["C17"] = _c("guard analysis of enumFieldToString/castToEnumValue + map-range single-result lint",
    "Decides that the library's enum name<->value helpers treat exactly 0 as unset, return names only after successful ΛMap lookups, error on unknown values, use the type's own ΛMap with no package state and compare names modulo module prefix on both sides.")
CHECKS["C20"] = _c("panic-class lints over the static call closure of the nine entry points (unchecked type assertions, uncomparable interface ==, reflective call arity, explicit panic) + inductive (value, encoding) pairing invariant over the unmarshal call graph for the *TypedValue assertions",
    "Decides absence of three syntactically visible panic classes in everything statically reachable from the listed entry points; index bounds, nil dereferences and panics inside reflect are not decided.")
CHECKS["C30"] = _c("error-drop discipline, match-result guards, lock-step cursor rule and partial-key guard (lexical dominance over AST + go/types)",
    "Decides that leafref errors are dropped only under IgnoreMissingData, that the iterator returns every helper error, that matchesNodes reports a match only after an equality test (or for an empty source), that dataNodesAtPath moves its data and memo cursors together and caches under the looked-up path, and that a missing key is tolerated only when absent.")
CHECKS["C31"] = _c("guard/order analysis of unmarshalStruct, unmarshalLeafList, unmarshalList + option-forwarding lint",
    "Decides that existing fields are never re-created, only mentioned fields are entered, a mentioned leaf-list is cleared before filling on every successful path, keyed-list elements merge into existing entries, the unknown-member check is governed exactly by IgnoreExtraFields, and options reach every nested call.")
CHECKS["C32"] = _c("guard analysis of the PruneConfigFalse iterator (write gated by !IsConfig, whitelisted skip predicates, unconditional walk)",
    "Decides that PruneConfigFalse always walks the given struct with the given schema, writes only zero values into fields whose schema IsConfig reports false, skips fields only for the documented reasons, and that IsConfig is goyang's inherited config decision.")

CHECKS["C28"] = _c("interval evaluation of fieldTag's comparisons, string-only backward slice of hashed inputs, must-precede collision check at the single render site, scan of the golden .proto corpus",
    "Decides that fieldTag returns only valid unreserved field numbers, that hashed inputs are schema strings only, that every message (oneof members included) and every identity enum is checked for repeated numbers with an error on collision, that explicit key tags increase per key, that the key/list name clash guard compares the emitted names, and that all golden .proto files are well-formed.")

CHECKS["C24"] = _c("writer/reader type-table agreement over protomap's type switches (go/types identity), enum-number-vs-index lint, comma-ok key-presence lint, value flow of result-map keys",
    "Decides that each Go type PathsFromProto stores per field kind is one the matching ProtoFromPaths decoder accepts (wrapper scalars, enums, leaf-lists, union leaf-list members, list keys), that enum descriptors are selected by number, that key presence is a comma-ok test, and that every emitted path is resolvedPath(base, schemapath annotation).")

CHECKS["C22"] = _c("role analysis of DiffSetRequest (argument-order-only A/B), per-phase key/effect analysis of minimalSetRequestIntent, single-owner rule for key-predicate formatting, JSON-form table of protoLeafToJSON",
    "Decides that A/B roles follow argument order only, common entries leave both sides, comparison is reflect.DeepEqual, every intent key is fullPathStr(one prefix, element path) via ygot.PathToString with no second formatter of key predicates, replace = delete + leaves and update = leaves, a leaf replace drops its delete with and without schema, duplicates conflict only on !DeepEqual, and proto leaf values have exactly encoding/json's forms (never a nil slice).")

CHECKS["C25"] = _c("commutativity classification of every range-over-map body in the generator packages over an interprocedural mod-effect summary, frozen table of hand-reviewed loops, sorted-sink and ambient-state who-may-call checks",
    "Decides that every range over a map in ygen/gogen/protogen/ypathgen/genutil/generator has effects that commute across iterations or is one of the reviewed loops with exactly its reviewed order-sensitive effects, that unordered collections are sorted where they reach rendered output, and that no time/random/environment source is reachable from generation.")

CHECKS["C15"] = _c("expansion of gogen's ordered-map templates (constants of the repo, expanded by the standard library's text/template over a frozen table of key shapes, never by repo code) followed by per-method effect/guard analysis of the residual Go code; ordered-traversal and reflective-name rules on internal/yreflect; diff equality guard",
    "Decides, for 7 key shapes, that the generated Append/AppendNew reject nil and duplicate keys before writing and add one key/one entry built from the element's own key leaves, Delete removes from both or neither, the readers store nothing and return fresh slices in key order, the parent helpers create lazily and delegate faithfully; that the library reads ordered maps only in Keys() order; and that reflectively called methods exist with the checked arity.")
CHECKS["C34"] = _c("expansion of gogen's keyed-list helper templates over a frozen table of key shapes (standard library text/template, no repo code run) followed by per-method effect/guard analysis of the residual Go code",
    "Decides, for 7 key shapes, that New/Append reject duplicate (and nil) keys before writing, New's entry carries the key arguments, Append derives the key from the element, Get writes nothing and never creates, GetOrCreate creates only on a miss, Delete removes only the key, Rename validates first, sets every key leaf from newK in the right direction and moves the entry, and ΛListKeyMap covers every key.")

CHECKS["C33"] = _c("expansion of gogen's PopulateDefaults/getter templates (standard library text/template over analyser-built leaf shapes) + the same per-method guard analysis over the 30 compiled PopulateDefaults methods; provenance analysis of Go literals in yangDefaultValueToGo; key-statement substring lint",
    "Decides that PopulateDefaults writes a leaf only under that leaf's unset test with a fresh default literal, writes exactly the defaulted leaves and descends into every child; that default literals are %q-quoted or parsed-then-raw and validated against the type's restrictions at generation; and that `key` statements are never searched by substring; two value-semantics clauses (binary default literal built from the base64 text, defaults of leaves below a case populated unconditionally) are decided as violated and recorded as known findings.")

CHECKS["C29"] = _c("purity/effect analysis of ygot's path resolution, expansion of ypathgen's constructor and key-builder templates (standard library text/template, analyser-built data), value-flow rule on the generator's key-map text, same-source rule for relative paths, key type tables",
    "Decides that resolution caches nothing and renders names in order with every key through KeyValueAsString (ancestors first), that ModifyKey writes exactly the named key, that the generated constructor passes its receiver as parent with the generator's path list and key map, that every list constructor's key map has one entry per key (value or \"*\") with the empty form only for the all-wildcard non-builder case, and that path lists and GoStruct path tags derive from the same IR data.")

CHECKS["C27"] = _c("structural analysis of the schema embedding path (key-domain agreement, no-filter loops, who-may-write on yang.Entry, complete marshal/gzip/decode) + read-set rule over goyang's json struct tags for everything reachable from the run-time API",
    "Decides that struct names are recorded under the key they are looked up by, that no module child or entry is filtered out and only Description/Annotation are written before serialising, that the whole root is marshalled and gzipped completely, that decoding restores Parent and indexes every annotated entry, and that run-time code reads only entry fields that survive serialisation.")

CHECKS["C26"] = _c("expansion of all 31 gogen templates into one complete package (both union styles) type-checked with go/types against the loaded ygot/ytypes/goyang; interface-satisfaction checks; type-check of the 54 golden generated Go files; structural rules on writeGoStruct (one field per IR field, Go type per node kind, uniquified names, consistent ordered/unordered decision) and createFakeRoot",
    "Decides that the code the templates expand to compiles and implements the ygot interfaces, that the golden generated files type-check, that writeGoStruct emits one field per IR field with the type of its node kind from the uniquified name maps with one shared ordered-map decision, and that the fake root receives every root directory, leaf and leaf-list.")

CHECKS["C10"] = _c("write-site guard analysis of retrieveNodeContainer (value written only where the path is exhausted, with the addressed field's schema) + imported flag-gating, key-table, decode-discipline, float→int, wildcard and partial-key rules",
    "Decides the structural half of set-then-get: the SetNode value is written only at the exhausted path with the field's own schema and parent, every other write of the retrieveNode family is flag-gated creation/deletion, created list entries take their key leaves from the path through parsers that agree with the key renderer for every key kind, payload decoding returns every parse error with no lossy conversion, and multi-entry selection happens only under GetNode's explicit options.")
CHECKS["C23"] = _c("classification-table guard analysis of DiffSetRequestToNotifications + imported intent normal-form and path-format-owner rules",
    "Decides that notification leaves are keyed and expanded exactly like intent leaves, that each intent leaf is classified by the (present, reflect.DeepEqual) table with the intent on side A and removed from the leftovers unconditionally, that extras are exactly the leftovers strictly below a deleted/replaced path, and that notifications carrying deletes are refused rather than ignored.")

for _p in []:
    NA[_p] = NOT_YET
# NA["C10"] = "quantifies over runtime trees, paths and payloads; its structural clauses (key and value tables) are decided under C16/C18 and the frame clause has no static handle here (DESIGN.md §7)"
# NA["C23"] = "classification of runtime leaves after single-leaf edits; no clause visible in code shape beyond those claimed under C22 (DESIGN.md §7)"
