#!/bin/bash
# Runs the repository's pinned test suite (guard off; there are no hooks) and
# compares the passing set with /root/.vp/BASELINE.json stable_pass.
# usage: baseline.sh [repo_dir] [pkg patterns...]   (default: /repo ./...)
export GOFLAGS=-mod=mod GOPROXY=off   # GOTOOLCHAIN left at auto and GOSUMDB unset: go.mod selects the cached go1.24.0, which tolerates the emptied packages
unset GOWORK GOTOOLCHAIN GOSUMDB
REPO=${1:-/repo}; shift
PATS=${@:-./...}
OUT=$(mktemp /tmp/baseline.XXXXXX.json)
(cd "$REPO" && go test -json -vet=off -count=1 -timeout 25m $PATS > "$OUT" 2>/dev/null)
python3 - "$OUT" "$PATS" <<'PY'
import json,sys
out=sys.argv[1]; pats=sys.argv[2]
base=json.load(open('/root/.vp/BASELINE.json'))
want=set(base['stable_pass'])
passed=set(); failed=set(); pkgs=set()
for l in open(out):
    try: e=json.loads(l)
    except Exception: continue
    if e.get('Package'): pkgs.add(e['Package'])
    if e.get('Test') and e.get('Action') in('pass','fail'):
        k=e['Package']+'::'+e['Test']
        (passed if e['Action']=='pass' else failed).add(k)
if pats!='./...':
    want={w for w in want if w.split('::')[0] in pkgs}
missing=sorted(want-passed)
print(f"baseline: expected {len(want)} stable-pass tests in scope, passed {len(want&passed)}, missing {len(missing)}, failed(any) {len(failed)}")
for m in missing[:40]: print("  MISSING/FAILED:",m)
sys.exit(1 if missing else 0)
PY
rc=$?
rm -f "$OUT"
# the suite's glog output lands in /tmp (one file per test binary run): do not let it pile up
find /tmp -maxdepth 1 -name '*.test.*' -delete 2>/dev/null
exit $rc
