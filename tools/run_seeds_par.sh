#!/bin/bash
# run_seeds_par.sh [-j N] [seed-id ...]: for each confirmed seeded change, copies /repo's working
# tree to a scratch directory under /tmp, applies the patch there, runs every check against that
# copy (YGOT_REPO), records which properties raise VIOLATION/UNDECIDED, and removes the copy.
# /repo itself is never touched. Output: one line per seed, sorted; full logs in $OUT (default
# /tmp/seedruns).
cd /verif
J=4
if [ "$1" = "-j" ]; then J=$2; shift 2; fi
IDS=${@:-$(ls seeded)}
OUT=${OUT:-/tmp/seedruns}
mkdir -p $OUT
one() {
  id=$1
  d=/verif/seeded/$id
  [ -f $d/patch.diff ] || exit 0
  w=$(mktemp -d /tmp/seedcopy.XXXXXX)
  rsync -a --exclude=.git /repo/ $w/
  if ! (cd $w && git apply --whitespace=nowarn $d/patch.diff 2>$OUT/$id.apply); then
    echo "== $id: patch does not apply"; rm -rf $w; exit 0
  fi
  YGOT_REPO=$w ${YGOTSA_BIN:-/verif/bin/ygotsa} check ${CHECK:-all} --no-evidence > $OUT/$id.log 2>&1
  rm -rf $w
  prop=${id%%-*}
  hits=$(grep -E "^VIOLATION|^UNDECIDED" $OUT/$id.log | sed -E 's/ replay=.*//; s/ rule=.*//' | sort -u | tr '\n' ';')
  own=$(grep -c "^VIOLATION property=$prop " $OUT/$id.log)
  echo "== $id own=$own :: $hits"
}
export -f one
export OUT CHECK YGOTSA_BIN
printf "%s\n" $IDS | xargs -P $J -I{} bash -c 'one {}' | sort
