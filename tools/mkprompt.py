#!/usr/bin/env python3
"""mkprompt.py Cxx K1 K2 -> prints the prompt given to a fresh sub-agent that is asked for two
seeded changes (numbered K1, K2) breaking property Cxx. The agent gets only the property text and
its own scratch worktree /tmp/wt/Cxx (created by the caller with `git -C /repo worktree add`)."""
import json, sys
pid, k1, k2 = sys.argv[1], sys.argv[2], sys.argv[3]
prop = None
for l in open('/verif/properties.jsonl'):
    p = json.loads(l)
    if p['id'] == pid:
        prop = p
assert prop
wt = f"/tmp/wt/{pid}"
print(f"""You are helping test a verification effort for the Go library openconfig/ygot. Your own scratch git worktree of the repository is at {wt} (work ONLY there; never touch /repo or /verif, and do not read /verif).

The property under test (of the code as it is now):

TITLE: {prop['title']}
STATEMENT: {prop['statement']}
QUANTIFIED OVER: {prop['quantifier']['text']}
WHY THE EXISTING TESTS DO NOT SETTLE IT: {prop['why_tests_cant']}
ANCHORS (where the mechanism lives): {json.dumps(prop['anchors'].get('mechanism', []))} in files {prop['anchors'].get('files', [])}

Your task: produce TWO independent, realistic changes to openconfig/ygot (non-test source files only), each of which
  (a) still compiles,
  (b) keeps the existing test-suite passing (run `go test -vet=off -count=1 ./...` for the packages that build; note: the packages exampleoc, exampleoc/opstateoc, exampleoc/wrapperunionoc, uexampleoc have been emptied in this sandbox, so they and packages whose tests import them — gnmidiff tests, demo/*, integration_tests/uncompressed — fail to build both before and after your change; ignore those),
  (c) breaks the property above — but only for something specific: a particular unusual input, a multi-step sequence of operations, a particular interleaving, or two cooperating sites that each look fine alone. Do NOT produce changes that ordinary use would expose at once, and do not simply delete an obviously essential statement. Think of the kind of plausible "simplification", "optimisation" or refactoring slip a maintainer could merge. Prefer changes in different functions/mechanisms for the two seeds.
For each change also write a demonstration: a Go test file (self-contained, package and destination path of your choice inside the worktree, e.g. ytypes/zz_seed_demo_test.go) that PASSES on the unmodified tree and FAILS with your change applied.

Environment: no network. Do NOT use `git stash` (the stash is shared between worktrees and other people are working in sibling worktrees): use `git diff > file`, `git apply`, `git apply -R` and `git checkout -- .` instead. When running `go test ./...` exclude the SEED/ directory. Always run go with `GOFLAGS=-mod=mod GOPROXY=off` exported. The compiled generated packages integration_tests/schemaops/ctestschema and utestschema are available for use in demos.

Deliverables, for seed numbers {k1} and {k2}: create directories {wt}/SEED/{k1} and {wt}/SEED/{k2}, each containing
  - patch.diff  : `git diff` of the source change only (must apply with `git apply` on a clean worktree; do not include the demo test or SEED/ in it),
  - demo_test.go: the demonstration test file,
  - README.md   : 5-10 lines: what was changed, why it breaks the property, exactly what input/sequence is needed to manifest, where demo_test.go must be copied to (path relative to the repo root) and which commands you ran with their outcomes (clean: demo passes; patched: demo fails; patched: existing suite still passes).
Before finishing, restore the worktree to a clean state (`git checkout -- . && git clean -fdq -e SEED`), leaving only SEED/ untracked. Report briefly the two destinations of the demo files.""")
