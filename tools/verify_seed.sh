#!/bin/bash
# verify_seed.sh <prop> <k> <dest-test-file-relative-to-repo>
# Confirms a seeded change in worktree /tmp/wt/<prop>: demo passes clean, fails with the
# patch, and the pinned suite still passes with the patch. Then stores it under /verif/seeded/.
set -u
P=$1; K=$2; DEST=$3
WT=/tmp/wt/$P
SEEDS=/tmp/wt/seeds/$P
if [ -d $WT/SEED ]; then mkdir -p /tmp/wt/seeds; rm -rf $SEEDS; mv $WT/SEED $SEEDS; fi
S=$SEEDS/$K
export GOFLAGS=-mod=mod GOPROXY=off
cd $WT || exit 2
git checkout -q -- . ; git clean -fdq
PKG=./$(dirname $DEST)/
mkdir -p $(dirname $DEST); cp $S/demo_test.go $DEST
TESTS=$(grep -oE '^func (Test[A-Za-z0-9_]+)' $DEST | awk '{print $2}' | paste -sd'|')
echo "== clean: go test -run '^($TESTS)\$' $PKG"
if ! go test -vet=off -count=1 -run "^($TESTS)\$" $PKG > /tmp/wt/seed_clean.log 2>&1; then echo "FAIL: demo does not pass on clean tree"; tail -20 /tmp/wt/seed_clean.log; git checkout -q -- .; git clean -fdq; exit 1; fi
git apply $S/patch.diff || { echo "FAIL: patch does not apply"; git checkout -q -- .; git clean -fdq; exit 1; }
echo "== patched: demo must fail"
if go test -vet=off -count=1 -run "^($TESTS)\$" $PKG > /tmp/wt/seed_patched.log 2>&1; then echo "FAIL: demo passes with patch"; git checkout -q -- .; git clean -fdq; exit 1; fi
grep -m3 -E "^--- FAIL|panic:|FAIL" /tmp/wt/seed_patched.log
rm -f $DEST
echo "== patched: pinned suite"
/verif/tools/baseline.sh $WT || { echo "FAIL: suite fails with patch"; git checkout -q -- .; git clean -fdq; exit 1; }
git checkout -q -- .; git clean -fdq
D=/verif/seeded/$P-$K
mkdir -p $D
cp $S/patch.diff $D/patch.diff; cp $S/demo_test.go $D/demo_test.go.txt; cp $S/README.md $D/README.md
python3 - "$P" "$K" "$DEST" "$D" <<'PY'
import json,sys
p,k,dest,d=sys.argv[1:]
json.dump({"property":p,"seed":f"{p}-{k}","demo_destination":dest,
 "needs_to_manifest":"see README.md (written by the sub-agent that produced the change)",
 "confirmed":{"demo_passes_on_clean_tree":True,"demo_fails_with_patch":True,"pinned_suite_passes_with_patch":"3015/3015 (tools/baseline.sh)"},
 "ran":f"tools/verify_seed.sh {p} {k} {dest}","detected_by":"(filled in after running the checks)"},open(d+"/meta.json","w"),indent=1)
PY
echo "CONFIRMED $P-$K -> $D"
