#!/bin/bash
# rebase_seeds.sh <base-commit> <seed-id>...: re-bases seed patches that stopped applying after a
# fix: commit touched the same lines. For each file of the patch: 3-way merge (git merge-file) of
# current /repo content with the patched version of <base-commit>'s content. Conflicts are reported.
BASE=$1; shift
for id in "$@"; do
  d=/verif/seeded/$id
  W=$(mktemp -d /tmp/rebase.XXXXXX)
  ok=1
  : > $W/new.diff
  for f in $(grep '^diff --git' $d/patch.diff | sed -E 's|diff --git a/(.*) b/.*|\1|'); do
    mkdir -p $W/old/$(dirname $f) $W/a/$(dirname $f) $W/b/$(dirname $f)
    git -C /repo show $BASE:$f > $W/old/$f
    cp /repo/$f $W/a/$f
  done
  (cd $W/old && cp -r . ../patched && cd ../patched && git apply $d/patch.diff) || { echo "$id: patch does not apply to base $BASE"; rm -rf $W; continue; }
  for f in $(grep '^diff --git' $d/patch.diff | sed -E 's|diff --git a/(.*) b/.*|\1|'); do
    cp $W/a/$f $W/b/$f
    git merge-file $W/b/$f $W/old/$f $W/patched/$f || { echo "$id: CONFLICT in $f (left in $W)"; ok=0; }
    (cd $W && echo "diff --git a/$f b/$f" && diff -u a/$f b/$f | sed "1s|.*|--- a/$f|; 2s|.*|+++ b/$f|") >> $W/new.diff
  done
  if [ $ok = 1 ]; then
    cp $W/new.diff $d/patch.diff
    git -C /repo apply --check $d/patch.diff && echo "$id: rebased, applies" || echo "$id: rebased patch does not apply?!"
    rm -rf $W
  fi
done
