#!/bin/bash
# run_seeds.sh [seed-id ...]: applies each confirmed seeded change to /repo, runs all checks
# (one analyser process), records which properties raise a VIOLATION/UNDECIDED, and restores /repo.
cd /verif
IDS=${@:-$(ls seeded)}
if [ -n "$(git -C /repo status --porcelain --untracked-files=no)" ]; then echo "/repo not clean"; exit 2; fi
for id in $IDS; do
  d=seeded/$id
  [ -f $d/patch.diff ] || continue
  git -C /repo apply $PWD/$d/patch.diff || { echo "$id: patch does not apply"; continue; }
  out=$(./bin/ygotsa check all --no-evidence 2>&1)
  git -C /repo checkout -- .
  hits=$(echo "$out" | grep -E "^VIOLATION|^UNDECIDED" | sed -E 's/replay=.*//' | sort -u | tr '\n' ';')
  det=$(echo "$out" | grep -E "^  violated:" | head -3)
  prop=${id%%-*}
  own=$(echo "$out" | grep -c "^VIOLATION property=$prop ")
  echo "== $id own_property_detects=$own :: $hits"
  [ -n "$det" ] && echo "$det" | cut -c1-260
done
